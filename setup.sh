#!/bin/bash
# Build the simulator offline and prove the seam + determinism.
set -e
cd "$(dirname "$0")"
export CARGO_NET_OFFLINE=true
(cd sim && cargo build --release --offline)
# the real binary, used by C13 thorough (byte comparison) and C17 (exit status): warm the cache;
# ./check rebuilds it incrementally from /repo's working tree whenever it is needed
cargo build --release --offline --manifest-path /repo/Cargo.toml --bin cargo-tauri-typegen --target-dir "$PWD/sim/target/repo-bin"
./sim/target/release/ttg-sim selfcheck "${1:-24}"
