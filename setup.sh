#!/bin/bash
# Build the simulator offline and prove the seam + determinism.
set -e
cd "$(dirname "$0")"
export CARGO_NET_OFFLINE=true
(cd sim && cargo build --release --offline)
./sim/target/release/ttg-sim selfcheck "${1:-24}"
