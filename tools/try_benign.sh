#!/bin/bash
# tools/try_benign.sh <patch> : applies a property-preserving change to /repo and runs every quick check
# (expected: all exit 0); restores /repo. Prints one line.
P="$1"
cd /repo || exit 2
[ -z "$(git status --porcelain --untracked-files=no)" ] || { echo "/repo not clean"; exit 2; }
git apply "$P" || { echo "$P: does not apply"; exit 2; }
res=""
for c in C08 C09 C13 C14 C16 C17 C20; do
  /verif/check $c quick >/dev/shm/benign.$$.log 2>&1; rc=$?
  res="$res $c:$rc"
  if [ $rc -ne 0 ]; then
    grep -E "signature|HARNESS-ERROR|detail" /dev/shm/benign.$$.log | head -4 | cut -c1-260 | sed "s/^/      [$c] /"
  fi
done
git checkout -q -- . ; git clean -fdq -- src tests
git status --porcelain | grep -v '^??' | head -2
# rebuild the simulator from the restored tree, so that a later direct use of the binary is not a mutant
(cd /verif/sim && CARGO_NET_OFFLINE=true cargo build --release --offline >/dev/null 2>&1)
find /verif/replays -name '*.json' -delete
rm -f /dev/shm/benign.$$.log
echo "$(basename $(dirname $(dirname $P)))/$(basename $P):$res"
