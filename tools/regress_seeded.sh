#!/bin/bash
# tools/regress_seeded.sh [filter]
# Sensitivity regression: applies every seeded/<id>/patch.diff to /repo in turn, runs the check(s)
# and tier recorded under caught_by in its meta.json and expects a VIOLATION (exit 1); restores /repo.
# Prints one line per seeded change; exit 0 iff all are still caught.
cd "$(dirname "$0")/.." || exit 2
F="${1:-}"
[ -z "$(git -C /repo status --porcelain --untracked-files=no)" ] || { echo "/repo not clean"; exit 2; }
fail=0
for d in seeded/*/; do
  id=$(basename "$d")
  [ -n "$F" ] && [[ "$id" != *"$F"* ]] && continue
  git -C /repo apply "$PWD/$d/patch.diff" 2>/dev/null || { echo "$id: patch does not apply to /repo HEAD (skipped)"; continue; }
  res=""
  while read -r chk tier; do
    t=quick; case "$tier" in thorough*) t=thorough;; esac
    ./check "$chk" "$t" >/dev/shm/regress.$$.log 2>&1; rc=$?
    n=$(grep -c '^VIOLATION' /dev/shm/regress.$$.log)
    res="$res $chk/$t:exit$rc/${n}v"
    [ $rc -eq 1 ] || fail=1
  done < <(python3 -c "
import json,sys
m=json.load(open('$d/meta.json'))
for c in m['caught_by']: print(c['check'], c['tier'].split()[0])")
  git -C /repo checkout -q -- . ; git -C /repo clean -fdq -- src tests
  echo "$id:$res"
done
# rebuild the simulator from the restored tree, so that a later direct use of the binary is not a mutant
(cd /verif/sim && CARGO_NET_OFFLINE=true cargo build --release --offline >/dev/null 2>&1)
find replays -name '*.json' -delete
rm -f /dev/shm/regress.$$.log
exit $fail
