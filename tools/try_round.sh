#!/bin/bash
# tools/try_round.sh <round-letter> [filter]   e.g. tools/try_round.sh e   |   tools/try_round.sh e C17
# runs tools/try_seeded.sh for every m*.patch of every /tmp/wt-<Cxx>-<round>/seeded and prints a compact summary
R="$1"; F="${2:-}"
for wt in /tmp/wt-C*-"$R"; do
  id=$(basename "$wt" | cut -d- -f2)
  [ -n "$F" ] && [ "$id" != "$F" ] && continue
  extra=""
  case "$id" in C08) extra="C17";; C20) extra="C09";; esac
  for p in "$wt"/seeded/m*.patch; do
    [ -f "$p" ] || continue
    m=$(basename "$p" .patch)
    echo "######## $id-$R $m"
    /verif/tools/try_seeded.sh "$wt" "$m" "$id" $extra 2>&1 | grep -E 'SUMMARY|check |signature|HARNESS-ERROR|does not apply|not clean' | grep -v conda | cut -c1-150 | awk '/signature/{n++; if(n>4) next} {print}'
  done
done
