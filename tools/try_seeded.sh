#!/bin/bash
# tools/try_seeded.sh <worktree> <m1|m2> <property-id> [extra check ids...]
# 1. confirms in the scratch worktree: suite passes with the change, demo fails with it, demo passes without
# 2. applies the change to /repo, runs the property's check (quick, then thorough if quick is silent), reverts
set -u
WT="$1"; M="$2"; PROP="$3"; shift 3
export CARGO_NET_OFFLINE=true
P="$WT/seeded/$M.patch"
[ -f "$P" ] || { echo "no $P"; exit 2; }
cd "$WT" || exit 2
git checkout -q -- . ; git clean -fdq -- src tests ; rm -f tests/seeded_demo.rs
DEMO=""
for ext in rs sh; do [ -f "seeded/${M}_demo.$ext" ] && DEMO="seeded/${M}_demo.$ext"; done
run_demo() {
  case "$DEMO" in
    *.rs) cp "$DEMO" tests/seeded_demo.rs; cargo test --offline --test seeded_demo >/dev/shm/demo.$$.log 2>&1; rc=$?; rm -f tests/seeded_demo.rs; return $rc;;
    *.sh) bash "$DEMO" >/dev/shm/demo.$$.log 2>&1; return $?;;
    *) echo "no demo"; return 99;;
  esac
}
echo "== [$WT $M] demo WITHOUT change (must pass)"
run_demo; D0=$?; echo "   exit $D0"
git apply "$P" || { echo "patch does not apply in worktree"; exit 2; }
echo "== suite WITH change (must pass)"
cargo test --workspace --no-fail-fast --offline >/dev/shm/suite.$$.log 2>&1; S1=$?
grep -E '^test result' /dev/shm/suite.$$.log | tr '\n' ' '; echo "   exit $S1"
echo "== demo WITH change (must fail)"
run_demo; D1=$?; echo "   exit $D1"; tail -n 5 /dev/shm/demo.$$.log | sed 's/^/      /'
git checkout -q -- . ; git clean -fdq -- src tests
echo "SUMMARY wt-confirm: demo_without=$D0 suite_with=$S1 demo_with=$D1"
echo "== applying to /repo and running checks"
cd /repo || exit 2
[ -z "$(git status --porcelain --untracked-files=no)" ] || { echo "/repo not clean"; exit 2; }
git apply "$P" || { echo "patch does not apply to /repo"; exit 2; }
for C in "$PROP" "$@"; do
  /verif/check "$C" quick >/dev/shm/chk.$$.log 2>&1; RC=$?
  echo "   check $C quick -> exit $RC: $(grep -c '^VIOLATION' /dev/shm/chk.$$.log) violation line(s)"
  grep -E '^  signature|HARNESS' /dev/shm/chk.$$.log | sort | uniq -c | head -8
  if [ $RC -eq 0 ]; then
    /verif/check "$C" thorough >/dev/shm/chk.$$.log 2>&1; RC=$?
    echo "   check $C thorough -> exit $RC: $(grep -c '^VIOLATION' /dev/shm/chk.$$.log) violation line(s)"
    grep -E '^  signature|HARNESS' /dev/shm/chk.$$.log | sort | uniq -c | head -8
  fi
done
git checkout -q -- . ; git clean -fdq -- src tests
find /verif/replays -name '*.json' -delete
rm -f /dev/shm/*.$$.log
# rebuild the simulator from the restored tree, so that a later direct use of the binary is not a mutant
(cd /verif/sim && CARGO_NET_OFFLINE=true cargo build --release --offline >/dev/null 2>&1)
