//! Scenario helpers shared by the checks: materialise a world, run the tool,
//! obtain the reference generation.

use crate::canon::{self, files_of};
use crate::harness::{Env, RunOut};
use crate::interpose::ProcSpec;
use crate::model::Model;
use crate::process::Call;
use crate::rng::Rng;
use crate::world::{Cfg, Entry, Setup, World};
use std::collections::BTreeMap;

pub type Files = BTreeMap<String, Vec<u8>>;

pub fn materialise(env: &mut Env, model: &Model, cfg: &Cfg, setup: &Setup) -> World {
    let w = env.world();
    w.write_sources(model);
    w.write_config(setup, cfg);
    w
}

/// One run of the tool through the entry point of `setup`.
pub fn run_tool(
    env: &mut Env,
    w: &World,
    setup: &Setup,
    cfg: &Cfg,
    spec: ProcSpec,
    force_flag: bool,
    verbose: bool,
) -> RunOut {
    let cwd = w.cwd(setup);
    let call = match setup.entry {
        Entry::Cli => Call::Cli(w.argv(setup, cfg, force_flag, verbose)),
        Entry::Build => Call::Build,
    };
    env.run(w, &cwd, spec, call)
}

pub fn out_files(w: &World, setup: &Setup) -> Files {
    files_of(&w.snapshot_of(&setup.out))
}

/// The reference: forced, fault-free generation into an empty output
/// directory from the current sources and configuration.  The world is left
/// exactly as it was.
pub fn reference(env: &mut Env, w: &World, setup: &Setup, cfg: &Cfg, keys: u64) -> Result<Files, String> {
    let snap = w.snapshot();
    let times = w.file_times();
    let out = w.out_dir(setup);
    let _ = std::fs::remove_dir_all(&out);
    let mut c = cfg.clone();
    let mut force_flag = false;
    match setup.entry {
        Entry::Cli => force_flag = true,
        Entry::Build => c.force = Some(true),
    }
    if c != *cfg {
        w.write_config(setup, &c);
    }
    let r = run_tool(env, w, setup, &c, ProcSpec::plain(keys), force_flag, false);
    let files = out_files(w, setup);
    w.restore_with_times(&snap, &times);
    if !r.res.status.is_ok() {
        return Err(format!("reference run failed: {}", r.res.status.short()));
    }
    Ok(files)
}

/// Reference under two different hash seeds; Err(reason) when the two already
/// disagree in *content* (then the world is no oracle for anything but C13).
pub fn reference2(env: &mut Env, w: &World, setup: &Setup, cfg: &Cfg) -> Result<Files, String> {
    let a = reference(env, w, setup, cfg, 0x0101_0101)?;
    let b = reference(env, w, setup, cfg, 0xfefe_7777_1234)?;
    let names_a: Vec<&String> = a.keys().collect();
    let names_b: Vec<&String> = b.keys().collect();
    if names_a != names_b {
        return Err("reference nondeterministic: file set".into());
    }
    for (n, ba) in &a {
        if n == ".typecache" || n.starts_with("dependency-graph") {
            continue;
        }
        if canon::canon_key(ba) != canon::canon_key(&b[n]) {
            return Err(format!("reference nondeterministic: content of {}", n));
        }
    }
    Ok(a)
}

/// Per-process decisions drawn from a stream.
pub fn gen_proc(r: &mut Rng) -> ProcSpec {
    let keys = r.next_u64();
    let mut p = ProcSpec::plain(keys);
    p.hash_keys = [r.next_u64(), r.next_u64()];
    p.readdir_seed = r.next_u64() | 1;
    // clock: anywhere in 1971..2200, sometimes identical instants, sometimes jumps
    p.clock.start_s = match r.below(4) {
        0 => 1_790_000_000,
        1 => 40_000_000 + r.below(7_000_000_000) as i64,
        _ => 1_700_000_000 + r.below(200_000_000) as i64,
    };
    p.clock.step_ns = *r.pick(&[0i64, 1_000, 1_000_000, 1_500_000_000]);
    if r.chance(1, 3) {
        let at = r.below(6) as u32;
        let d = *r.pick(&[-3_600_000_000_000i64, 86_400_000_000_000, -1, 31_536_000_000_000_000]);
        p.clock.jumps.push((at, d));
    }
    if r.chance(1, 3) {
        p.chunk_seed = Some(r.next_u64());
    }
    p
}

/// One run through the THIRD public entry point, the library function
/// `tauri_typegen::generate_from_config` (no cache record, no dependency report): the
/// configuration is handed over as a value, with the paths spelled as the set-up spells them.
pub fn run_library(env: &mut Env, w: &World, setup: &Setup, cfg: &Cfg, spec: ProcSpec, verbose: bool) -> RunOut {
    let cwd = w.cwd(setup);
    let call = library_call(w, setup, cfg, verbose);
    env.run(w, &cwd, spec, call)
}

/// The call `run_library` makes, for checks that start processes themselves.
pub fn library_call(w: &World, setup: &Setup, cfg: &Cfg, verbose: bool) -> Call {
    let project = w.project_arg(setup);
    let out = w.output_arg(setup);
    let mode = cfg.mode.clone();
    let mappings: BTreeMap<String, String> = cfg.mappings.clone();
    let include_private = cfg.include_private;
    let visualize = cfg.visualize;
    let param_case = cfg.param_case.clone();
    let field_case = cfg.field_case.clone();
    Call::Func(Box::new(move || {
        let mut config = tauri_typegen::GenerateConfig { project_path: project, output_path: out, validation_library: mode, ..Default::default() };
        if !mappings.is_empty() {
            config.type_mappings = Some(mappings.into_iter().collect());
        }
        config.include_private = include_private;
        if verbose {
            config.verbose = Some(true);
        }
        if visualize {
            // (the library writes no dependency report, but the setting is part of the record)
            config.visualize_deps = Some(true);
        }
        if let Some(p) = param_case {
            config.default_parameter_case = p;
        }
        if let Some(f) = field_case {
            config.default_field_case = f;
        }
        tauri_typegen::generate_from_config(&config).map(|_| ()).map_err(|e| e.to_string())
    }))
}
