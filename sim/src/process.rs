//! A simulated process: one fresh OS thread carrying a `SimCtx`, running the
//! tool's real entry points.  Only `main()`'s dispatch (argv -> run_generate /
//! run_init, Err -> exit status 1) is re-stated here, because `main` reads the
//! real argv and calls `process::exit`.

use crate::interpose::{self, Event, ProcSpec, SimCtx};
use clap::Parser;
use serde::{Deserialize, Serialize};
use std::collections::BTreeMap;
use std::path::Path;
use std::sync::mpsc;
use std::time::Duration;

#[allow(dead_code, clippy::all)]
mod cli {
    include!("/repo/src/bin/cargo-tauri-typegen.rs");

    // the included functions are private to this module: thin pass-throughs
    #[allow(clippy::too_many_arguments)]
    pub fn generate(
        a: Option<PathBuf>,
        b: Option<PathBuf>,
        c: Option<String>,
        d: bool,
        e: bool,
        f: Option<PathBuf>,
        g: bool,
    ) -> Result<(), Box<dyn std::error::Error>> {
        run_generate(a, b, c, d, e, f, g)
    }
    #[allow(clippy::too_many_arguments)]
    pub fn init(
        a: Option<PathBuf>,
        b: Option<PathBuf>,
        c: Option<PathBuf>,
        d: Option<String>,
        e: bool,
        f: bool,
        g: bool,
    ) -> Result<(), Box<dyn std::error::Error>> {
        run_init(a, b, c, d, e, f, g)
    }
}

use tauri_typegen::interface::{CargoCli, CargoSubcommands, TypegenCommands};

#[derive(Clone, Debug, PartialEq, Eq, Serialize, Deserialize)]
pub enum Status {
    Ok,
    /// the tool reported failure (CLI: exit status 1; library: Err)
    Err(String),
    /// clap rejected the command line (exit status 2)
    Usage(String),
    Panic(String),
    Hang,
}

impl Status {
    pub fn is_ok(&self) -> bool {
        matches!(self, Status::Ok)
    }
    pub fn exit_code(&self) -> i32 {
        match self {
            Status::Ok => 0,
            Status::Err(_) => 1,
            Status::Usage(_) => 2,
            Status::Panic(_) => 101,
            Status::Hang => 124,
        }
    }
    pub fn short(&self) -> String {
        match self {
            Status::Ok => "ok".into(),
            Status::Err(e) => format!("err({})", e.chars().take(80).collect::<String>()),
            Status::Usage(_) => "usage".into(),
            Status::Panic(p) => format!("panic({})", p.chars().take(80).collect::<String>()),
            Status::Hang => "hang".into(),
        }
    }
}

pub enum Call {
    /// `cargo tauri-typegen ...` with this argv (argv[0] = "cargo")
    Cli(Vec<String>),
    /// what `src-tauri/build.rs` calls
    Build,
    /// arbitrary closure (API-level workloads, self-test)
    Func(Box<dyn FnOnce() -> Result<(), String> + Send + 'static>),
}

pub struct ProcResult {
    pub status: Status,
    pub stdout: String,
    pub stderr: String,
    pub trace: Vec<Event>,
    pub crashed: bool,
    pub fired: Vec<(String, String)>,
    pub counts: BTreeMap<&'static str, u64>,
    pub sim_ns: i128,
}

impl ProcResult {
    /// the run (re)wrote at least one .ts file
    /// the run (re)wrote at least one .ts file - directly, or by renaming a
    /// temporary file into place
    pub fn regenerated(&self) -> bool {
        self.trace.iter().any(|e| {
            !e.frozen
                && e.ret >= 0
                && ((e.op == interpose::Op::OpenW && e.path.ends_with(".ts"))
                    || (matches!(e.op, interpose::Op::Rename | interpose::Op::Link) && (e.path2.ends_with(".ts") || e.path.ends_with(".ts"))))
        })
    }
    /// base names of the files this run wrote (open for writing, or renamed/linked into place)
    pub fn written_names(&self) -> Vec<String> {
        let mut v = vec![];
        for e in &self.trace {
            if e.frozen || e.ret < 0 {
                continue;
            }
            let p = match e.op {
                interpose::Op::OpenW | interpose::Op::Link => &e.path,
                interpose::Op::Rename => &e.path2,
                _ => continue,
            };
            v.push(p.rsplit('/').next().unwrap_or("").to_string());
        }
        v
    }
    pub fn said_up_to_date(&self) -> bool {
        self.stdout.contains("bindings are up to date")
    }
}

fn dispatch_cli(argv: Vec<String>) -> Status {
    let args = match CargoCli::try_parse_from(argv) {
        Ok(a) => a,
        Err(e) => return Status::Usage(e.to_string()),
    };
    match args.command {
        CargoSubcommands::TauriTypegen(t) => {
            if t.version {
                return Status::Ok;
            }
            let Some(command) = t.command else {
                return Status::Err("No subcommand provided".into());
            };
            let r = match command {
                TypegenCommands::Generate {
                    project_path,
                    output_path,
                    validation_library,
                    verbose,
                    visualize_deps,
                    config_file,
                    force,
                } => cli::generate(
                    project_path,
                    output_path,
                    validation_library,
                    verbose,
                    visualize_deps,
                    config_file,
                    force,
                ),
                TypegenCommands::Init {
                    project_path,
                    generated_path,
                    output_path,
                    validation_library,
                    verbose,
                    visualize_deps,
                    force,
                } => cli::init(
                    project_path,
                    generated_path,
                    output_path,
                    validation_library,
                    verbose,
                    visualize_deps,
                    force,
                ),
            };
            match r {
                Ok(()) => Status::Ok,
                Err(e) => Status::Err(e.to_string()),
            }
        }
    }
}

fn run_call(call: Call) -> Status {
    match call {
        Call::Cli(argv) => dispatch_cli(argv),
        Call::Build => match tauri_typegen::BuildSystem::generate_at_build_time() {
            Ok(()) => Status::Ok,
            Err(e) => Status::Err(e.to_string()),
        },
        Call::Func(f) => match f() {
            Ok(()) => Status::Ok,
            Err(e) => Status::Err(e),
        },
    }
}

pub static mut HANG_TIMEOUT_MS: u64 = 30_000;

/// Run one simulated process to completion.  `cwd` becomes the (OS-)process
/// working directory: a worker runs one simulated process at a time.
pub fn run(cwd: &Path, spec: ProcSpec, call: Call) -> ProcResult {
    std::env::set_current_dir(cwd).expect("chdir into world");
    let (tx, rx) = mpsc::channel();
    let builder = std::thread::Builder::new()
        .name("simproc".into())
        .stack_size(8 << 20);
    let handle = builder
        .spawn(move || {
            interpose::install(SimCtx::new(spec));
            let r = std::panic::catch_unwind(std::panic::AssertUnwindSafe(|| run_call(call)));
            let ctx = interpose::uninstall().expect("ctx still installed");
            let status = match r {
                Ok(s) => s,
                Err(p) => {
                    let msg = if let Some(s) = p.downcast_ref::<&str>() {
                        s.to_string()
                    } else if let Some(s) = p.downcast_ref::<String>() {
                        s.clone()
                    } else {
                        "panic".to_string()
                    };
                    Status::Panic(msg)
                }
            };
            let _ = tx.send((status, ctx));
        })
        .expect("spawn simulated process");
    let timeout = Duration::from_millis(unsafe { HANG_TIMEOUT_MS });
    match rx.recv_timeout(timeout) {
        Ok((status, ctx)) => {
            let _ = handle.join();
            let ctx = *ctx;
            ProcResult {
                status,
                stdout: String::from_utf8_lossy(&ctx.stdout).into_owned(),
                stderr: String::from_utf8_lossy(&ctx.stderr).into_owned(),
                crashed: ctx.frozen,
                trace: ctx.trace,
                fired: ctx.fired,
                counts: ctx.counts,
                sim_ns: ctx.sim_ns_advanced,
            }
        }
        Err(_) => ProcResult {
            status: Status::Hang,
            stdout: String::new(),
            stderr: String::new(),
            trace: vec![],
            crashed: false,
            fired: vec![],
            counts: BTreeMap::new(),
            sim_ns: 0,
        },
    }
}
