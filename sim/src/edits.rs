//! Source edits as model transformations: one representative per edit class.
//! Whether an edit is output-affecting is never taken from its label; the
//! checks measure it (reference before vs. reference after).

use crate::model::*;
use crate::rng::Rng;

pub const EDIT_CLASSES: &[&str] = &[
    "add_command",
    "remove_command",
    "rename_command",
    "add_param",
    "remove_param",
    "rename_param",
    "param_type",
    "param_option_toggle",
    "return_type",
    "async_toggle",
    "add_channel",
    "remove_channel",
    "channel_msg_type",
    "channel_serde_rename",
    "add_field",
    "remove_field",
    "rename_field",
    "field_type",
    "field_option_toggle",
    "field_pub_toggle",
    "field_serde_rename",
    "field_serde_rename_identity",
    "struct_rename_all",
    "field_serde_skip",
    "add_variant",
    "remove_variant",
    "rename_variant",
    "variant_serde_rename",
    "enum_rename_all",
    "add_validator",
    "change_validator",
    "validator_message",
    "validator_min_zero",
    "add_event",
    "remove_event",
    "event_payload_type",
    "event_name",
    "duplicate_emit",
    "swap_emits",
    "make_type_reachable",
    "move_type_to_other_file",
    "delete_source_file",
    "add_unreferenced_serde_type",
    "comment",
    "decoy_fn",
    "non_serde_type",
];

/// Edit classes outside the stratified list (asked for by name in directed blocks).
pub const REORDER_CLASSES: &[&str] = &["reorder_fields", "reorder_variants"];

fn serde_struct_names(m: &Model, reachable_only: bool) -> Vec<String> {
    let reach = reachable_types(m);
    m.structs()
        .iter()
        .filter(|s| s.serde && !s.fields.is_empty() && (!reachable_only || reach.contains(&s.name)))
        .map(|s| s.name.clone())
        .collect()
}

/// serde types reachable from commands (params, returns, channels) and event payloads
pub fn reachable_types(m: &Model) -> std::collections::BTreeSet<String> {
    use std::collections::BTreeSet;
    let mut seen: BTreeSet<String> = BTreeSet::new();
    let mut stack: Vec<String> = vec![];
    for c in m.functions() {
        let mut ns = BTreeSet::new();
        if c.is_command {
            c.params.iter().for_each(|p| p.ty.named(&mut ns));
            if let Some(r) = &c.ret {
                r.named(&mut ns);
            }
            c.chans.iter().for_each(|ch| ch.msg.named(&mut ns));
        }
        for e in &c.emits {
            match &e.payload {
                Payload::Lit(t) => {
                    ns.insert(t.clone());
                }
                Payload::Var(v) => {
                    if let Some(p) = c.params.iter().find(|p| &p.name == v) {
                        p.ty.named(&mut ns);
                    }
                }
                Payload::Local { init: LocalInit::Lit(t), .. } | Payload::Local { init: LocalInit::New(t), .. } => {
                    ns.insert(t.clone());
                }
                _ => {}
            }
        }
        stack.extend(ns);
    }
    let edges = m.type_edges();
    while let Some(t) = stack.pop() {
        if seen.insert(t.clone()) {
            for (u, v) in &edges {
                if *u == t {
                    stack.push(v.clone());
                }
            }
        }
    }
    seen
}

fn other_prim(r: &mut Rng, not: &Ty) -> Ty {
    loop {
        let p = Ty::Prim(r.pick(PRIMS).to_string());
        // must map to a different TS primitive to be interesting; any change is fine for the hash
        if &p != not {
            return p;
        }
    }
}

fn toggle_opt(t: &Ty) -> Ty {
    match t {
        Ty::Opt(x) => (**x).clone(),
        x => Ty::Opt(Box::new(x.clone())),
    }
}

/// Apply one edit of the given class to a random eligible item. None when the
/// model has no eligible item.
pub fn gen_edit(r: &mut Rng, class: &str, m: &Model) -> Option<(Model, String)> {
    let mut m2 = m.clone();
    let mut nm = Namer::from_model(m);
    let cmd_names: Vec<String> = m.commands().iter().map(|c| c.name.clone()).collect();
    let pick = |r: &mut Rng, v: &[String]| -> Option<String> {
        if v.is_empty() {
            None
        } else {
            Some(r.pick(v).clone())
        }
    };
    let desc: String;
    match class {
        "add_command" => {
            let name = nm.fresh(r, "cmd");
            let c = Command {
                name: name.clone(),
                params: vec![Param { name: nm.fresh(r, "field"), ty: Ty::Prim("String".into()) }],
                chans: vec![],
                ret: Some(Ty::Prim("bool".into())),
                is_async: r.chance(1, 2),
                short_attr: false,
                emits: vec![],
                is_command: true,
            };
            let k = r.below(m2.files.len() as u64) as usize;
            m2.files[k].items.push(Item::Cmd(c));
            desc = format!("add command {}", name);
        }
        "remove_command" => {
            if cmd_names.len() < 2 {
                return None;
            }
            let n = pick(r, &cmd_names)?;
            for f in &mut m2.files {
                f.items.retain(|i| i.name() != Some(&n));
            }
            desc = format!("remove command {}", n);
        }
        "rename_command" => {
            let n = pick(r, &cmd_names)?;
            let new = nm.fresh(r, "cmd");
            m2.cmd_mut(&n)?.name = new.clone();
            desc = format!("rename command {} -> {}", n, new);
        }
        "add_param" => {
            let n = pick(r, &cmd_names)?;
            let p = Param { name: nm.fresh(r, "field"), ty: Ty::Prim(r.pick(PRIMS).to_string()) };
            desc = format!("add parameter {} to {}", p.name, n);
            m2.cmd_mut(&n)?.params.push(p);
        }
        "remove_param" | "rename_param" | "param_type" | "param_option_toggle" => {
            let with: Vec<String> = m.commands().iter().filter(|c| !c.params.is_empty()).map(|c| c.name.clone()).collect();
            let n = pick(r, &with)?;
            let c = m2.cmd_mut(&n)?;
            let k = r.below(c.params.len() as u64) as usize;
            match class {
                "remove_param" => {
                    let p = c.params.remove(k);
                    c.emits.retain(|e| e.payload != Payload::Var(p.name.clone()));
                    desc = format!("remove parameter {} of {}", p.name, n);
                }
                "rename_param" => {
                    let new = nm.fresh(r, "field");
                    let old = std::mem::replace(&mut c.params[k].name, new.clone());
                    for e in &mut c.emits {
                        if e.payload == Payload::Var(old.clone()) {
                            e.payload = Payload::Var(new.clone());
                        }
                    }
                    desc = format!("rename parameter {}.{} -> {}", n, old, new);
                }
                "param_type" => {
                    let old = c.params[k].ty.clone();
                    c.params[k].ty = other_prim(r, &old);
                    let pn = c.params[k].name.clone();
                    c.emits.retain(|e| e.payload != Payload::Var(pn.clone()));
                    desc = format!("parameter type {}.{}: {} -> {}", n, pn, old.render(), c.params[k].ty.render());
                }
                _ => {
                    let old = c.params[k].ty.clone();
                    c.params[k].ty = toggle_opt(&old);
                    desc = format!("parameter {}.{}: {} -> {}", n, c.params[k].name, old.render(), c.params[k].ty.render());
                }
            }
        }
        "return_type" => {
            let n = pick(r, &cmd_names)?;
            let c = m2.cmd_mut(&n)?;
            let old = c.ret.clone();
            c.ret = match &old {
                None => Some(Ty::Prim("u32".into())),
                Some(Ty::Res(t, e)) => Some(Ty::Res(Box::new(other_prim(r, t)), e.clone())),
                Some(t) => Some(other_prim(r, t)),
            };
            desc = format!("return type of {}: {:?} -> {:?}", n, old.map(|t| t.render()), c.ret.as_ref().map(|t| t.render()));
        }
        "async_toggle" => {
            let n = pick(r, &cmd_names)?;
            let c = m2.cmd_mut(&n)?;
            c.is_async = !c.is_async;
            desc = format!("toggle async of {}", n);
        }
        "add_channel" => {
            let n = pick(r, &cmd_names)?;
            let ch = Chan { name: nm.fresh(r, "field"), msg: Ty::Prim(r.pick(PRIMS).to_string()), rename: None };
            desc = format!("add channel {} to {}", ch.name, n);
            m2.cmd_mut(&n)?.chans.push(ch);
        }
        "channel_serde_rename" => {
            let with: Vec<String> = m.commands().iter().filter(|c| !c.chans.is_empty()).map(|c| c.name.clone()).collect();
            let n = pick(r, &with)?;
            let c = m2.cmd_mut(&n)?;
            let new = match &c.chans[0].rename {
                Some(_) => None,
                None => Some(format!("{}Stream", r.pick(WORDS))),
            };
            desc = format!("#[serde(rename)] on channel parameter {}.{}: {:?} -> {:?}", n, c.chans[0].name, c.chans[0].rename, new);
            c.chans[0].rename = new;
        }
        "remove_channel" | "channel_msg_type" => {
            let with: Vec<String> = m.commands().iter().filter(|c| !c.chans.is_empty()).map(|c| c.name.clone()).collect();
            let n = pick(r, &with)?;
            let c = m2.cmd_mut(&n)?;
            if class == "remove_channel" {
                let ch = c.chans.remove(0);
                desc = format!("remove channel {} of {}", ch.name, n);
            } else {
                let old = c.chans[0].msg.clone();
                c.chans[0].msg = other_prim(r, &old);
                desc = format!("channel message type of {}: {} -> {}", n, old.render(), c.chans[0].msg.render());
            }
        }
        "add_field" | "remove_field" | "rename_field" | "field_type" | "field_option_toggle" | "field_pub_toggle"
        | "field_serde_rename" | "field_serde_rename_identity" | "struct_rename_all" | "field_serde_skip" | "add_validator" | "change_validator" | "validator_message" | "validator_min_zero" => {
            let mut names = serde_struct_names(m, true);
            if class == "field_serde_rename_identity" {
                // only where a rename_all would otherwise transform the (multi-word) name
                names.retain(|n| m.structs().iter().any(|s| &s.name == n && s.rename_all.as_deref().map(|x| x != "snake_case").unwrap_or(false)));
            }
            let n = pick(r, &names)?;
            let s = m2.struct_mut(&n)?;
            let live: Vec<usize> = (0..s.fields.len()).filter(|k| !s.fields[*k].skip).collect();
            if live.is_empty() {
                return None;
            }
            let k = *r.pick(&live);
            match class {
                "add_field" => {
                    let f = Field { name: nm.fresh(r, "field"), ty: Ty::Prim(r.pick(PRIMS).to_string()), public: true, rename: None, skip: false, validate: None };
                    desc = format!("add field {}.{}", n, f.name);
                    s.fields.push(f);
                }
                "remove_field" => {
                    if s.fields.len() < 2 {
                        return None;
                    }
                    let f = s.fields.remove(k);
                    desc = format!("remove field {}.{}", n, f.name);
                }
                "rename_field" => {
                    let new = nm.fresh(r, "field");
                    let old = std::mem::replace(&mut s.fields[k].name, new.clone());
                    desc = format!("rename field {}.{} -> {}", n, old, new);
                }
                "field_type" => {
                    let old = s.fields[k].ty.clone();
                    s.fields[k].ty = other_prim(r, &old);
                    s.fields[k].validate = None;
                    desc = format!("field type {}.{}: {} -> {}", n, s.fields[k].name, old.render(), s.fields[k].ty.render());
                }
                "field_option_toggle" => {
                    let old = s.fields[k].ty.clone();
                    s.fields[k].ty = toggle_opt(&old);
                    desc = format!("field {}.{}: {} -> {}", n, s.fields[k].name, old.render(), s.fields[k].ty.render());
                }
                "field_pub_toggle" => {
                    s.fields[k].public = !s.fields[k].public;
                    desc = format!("toggle pub of {}.{}", n, s.fields[k].name);
                }
                "field_serde_rename" => {
                    let new = match &s.fields[k].rename {
                        Some(_) => None,
                        None => Some(format!("{}Renamed", r.pick(WORDS))),
                    };
                    desc = format!("#[serde(rename)] on {}.{}: {:?} -> {:?}", n, s.fields[k].name, s.fields[k].rename, new);
                    s.fields[k].rename = new;
                }
                "field_serde_rename_identity" => {
                    // rename to the identifier itself: a no-op for serde unless a rename_all (or a
                    // non-default field case) would otherwise have transformed the name
                    let new = match &s.fields[k].rename {
                        Some(_) => None,
                        None => Some(s.fields[k].name.clone()),
                    };
                    desc = format!("#[serde(rename = <the identifier itself>)] on {}.{}: {:?} -> {:?}", n, s.fields[k].name, s.fields[k].rename, new);
                    s.fields[k].rename = new;
                }
                "struct_rename_all" => {
                    let new = match &s.rename_all {
                        Some(x) if x == "camelCase" => Some("SCREAMING_SNAKE_CASE".to_string()),
                        Some(_) => None,
                        None => Some("camelCase".to_string()),
                    };
                    desc = format!("#[serde(rename_all)] on {}: {:?} -> {:?}", n, s.rename_all, new);
                    s.rename_all = new;
                }
                "field_serde_skip" => {
                    s.fields[k].skip = true;
                    desc = format!("#[serde(skip)] on {}.{}", n, s.fields[k].name);
                }
                "validator_min_zero" => {
                    // `length(min = 0, max = N)` <-> `length(max = N)`: the same set of accepted values,
                    // not the same generated text (`.min(0).max(N)` vs `.max(N)`)
                    let cands: Vec<usize> = live
                        .iter()
                        .copied()
                        .filter(|k| s.fields[*k].validate.as_deref().map(|v| v.starts_with("length(min = 0, ") || v.starts_with("length(max")).unwrap_or(false))
                        .collect();
                    if cands.is_empty() {
                        return None;
                    }
                    let k = *r.pick(&cands);
                    let old = s.fields[k].validate.clone().unwrap_or_default();
                    let new = if let Some(rest) = old.strip_prefix("length(min = 0, ") { format!("length({}", rest) } else { old.replacen("length(", "length(min = 0, ", 1) };
                    desc = format!("validator on {}.{}: {:?} -> {:?}", n, s.fields[k].name, old, new);
                    s.fields[k].validate = Some(new);
                }
                "validator_message" => {
                    // only the text of the error message changes (or a message appears / goes):
                    // the limits stay what they were
                    let cands: Vec<usize> = live
                        .iter()
                        .copied()
                        .filter(|k| s.fields[*k].validate.as_deref().map(|v| v.starts_with("length(") || v.starts_with("range(")).unwrap_or(false))
                        .collect();
                    if cands.is_empty() {
                        return None;
                    }
                    let k = *r.pick(&cands);
                    let old = s.fields[k].validate.clone().unwrap_or_default();
                    let word = *r.pick(WORDS);
                    let new = match old.find(", message = \"") {
                        Some(p) if r.chance(1, 3) => format!("{})", &old[..p]),
                        Some(p) => format!("{}, message = \"{} is not acceptable #{}\")", &old[..p], word, r.range(1, 999)),
                        None => format!("{}, message = \"{} must fit\")", old.trim_end_matches(')'), word),
                    };
                    desc = format!("validator message on {}.{}: {:?} -> {:?}", n, s.fields[k].name, old, new);
                    s.fields[k].validate = Some(new);
                }
                "add_validator" => {
                    let cands: Vec<usize> = live.iter().copied().filter(|k| s.fields[*k].validate.is_none() && gen_validate(&mut Rng::new(1), &s.fields[*k].ty).is_some()).collect();
                    if cands.is_empty() {
                        return None;
                    }
                    let k = *r.pick(&cands);
                    let ty = s.fields[k].ty.clone();
                    s.fields[k].validate = gen_validate(r, &ty);
                    desc = format!("add #[validate({})] on {}.{}", s.fields[k].validate.clone().unwrap_or_default(), n, s.fields[k].name);
                }
                _ => {
                    let cands: Vec<usize> = live.iter().copied().filter(|k| s.fields[*k].validate.is_some()).collect();
                    if cands.is_empty() {
                        return None;
                    }
                    let k = *r.pick(&cands);
                    let ty = s.fields[k].ty.clone();
                    let old = s.fields[k].validate.clone();
                    let mut new = gen_validate(r, &ty);
                    let mut guard = 0;
                    while new == old && guard < 20 {
                        new = gen_validate(r, &ty);
                        guard += 1;
                    }
                    if new == old {
                        new = None;
                    }
                    desc = format!("validator on {}.{}: {:?} -> {:?}", n, s.fields[k].name, old, new);
                    s.fields[k].validate = new;
                }
            }
        }
        // The two classes that only PERMUTE what an item declares (round j). They are not in
        // EDIT_CLASSES (the strata of the checks stay what they were); C08's third directed
        // quick block and its thorough tail ask for them by name.
        "reorder_fields" => {
            let names: Vec<String> = serde_struct_names(m, true).into_iter().filter(|n| m.structs().iter().any(|s| &s.name == n && s.fields.len() >= 2)).collect();
            let n = pick(r, &names)?;
            let s = m2.struct_mut(&n)?;
            let a = r.below(s.fields.len() as u64) as usize;
            let b = (a + 1 + r.below(s.fields.len() as u64 - 1) as usize) % s.fields.len();
            s.fields.swap(a, b);
            desc = format!("swap fields {}.{} and {}.{}", n, s.fields[b].name, n, s.fields[a].name);
        }
        "reorder_variants" => {
            let reach = reachable_types(m);
            let names: Vec<String> = m.enums().iter().filter(|e| reach.contains(&e.name) && e.variants.len() >= 2).map(|e| e.name.clone()).collect();
            let n = pick(r, &names)?;
            let e = m2.enum_mut(&n)?;
            let a = r.below(e.variants.len() as u64) as usize;
            let b = (a + 1 + r.below(e.variants.len() as u64 - 1) as usize) % e.variants.len();
            e.variants.swap(a, b);
            desc = format!("swap variants {}::{} and {}::{}", n, e.variants[b].name, n, e.variants[a].name);
        }
        "add_variant" | "remove_variant" | "rename_variant" | "variant_serde_rename" | "enum_rename_all" => {
            let reach = reachable_types(m);
            let names: Vec<String> = m.enums().iter().filter(|e| reach.contains(&e.name)).map(|e| e.name.clone()).collect();
            let n = pick(r, &names)?;
            let e = m2.enum_mut(&n)?;
            let k = r.below(e.variants.len() as u64) as usize;
            match class {
                "add_variant" => {
                    let v = Variant { name: nm.fresh(r, "variant"), rename: None, payload: None };
                    desc = format!("add variant {}::{}", n, v.name);
                    e.variants.push(v);
                }
                "remove_variant" => {
                    if e.variants.len() < 2 {
                        return None;
                    }
                    let v = e.variants.remove(k);
                    desc = format!("remove variant {}::{}", n, v.name);
                }
                "rename_variant" => {
                    let new = nm.fresh(r, "variant");
                    let old = std::mem::replace(&mut e.variants[k].name, new.clone());
                    desc = format!("rename variant {}::{} -> {}", n, old, new);
                }
                "variant_serde_rename" => {
                    let new = match &e.variants[k].rename {
                        Some(_) => None,
                        None => Some(format!("v_{}", r.pick(WORDS))),
                    };
                    desc = format!("#[serde(rename)] on {}::{}: {:?} -> {:?}", n, e.variants[k].name, e.variants[k].rename, new);
                    e.variants[k].rename = new;
                }
                _ => {
                    let new = match &e.rename_all {
                        Some(x) if x == "snake_case" => Some("SCREAMING_SNAKE_CASE".to_string()),
                        Some(_) => None,
                        None => Some("snake_case".to_string()),
                    };
                    desc = format!("#[serde(rename_all)] on enum {}: {:?} -> {:?}", n, e.rename_all, new);
                    e.rename_all = new;
                }
            }
        }
        "add_event" => {
            let n = pick(r, &cmd_names)?;
            let payload = match r.below(3) {
                0 => Payload::Int,
                1 => Payload::Str,
                _ => Payload::Bool,
            };
            let ev = Emit { event: nm.fresh(r, "event"), payload, emit_to: false };
            desc = format!("add event '{}' in {}", ev.event, n);
            m2.cmd_mut(&n)?.emits.push(ev);
        }
        "remove_event" | "event_payload_type" | "event_name" => {
            let with: Vec<String> = m.functions().iter().filter(|c| !c.emits.is_empty()).map(|c| c.name.clone()).collect();
            let n = pick(r, &with)?;
            let c = m2.cmd_mut(&n)?;
            let k = r.below(c.emits.len() as u64) as usize;
            match class {
                "remove_event" => {
                    let e = c.emits.remove(k);
                    desc = format!("remove event '{}' from {}", e.event, n);
                }
                "event_payload_type" => {
                    let old = c.emits[k].payload.clone();
                    c.emits[k].payload = match old {
                        Payload::Int => Payload::Str,
                        Payload::Str => Payload::Bool,
                        _ => Payload::Int,
                    };
                    desc = format!("payload of event '{}': {:?} -> {:?}", c.emits[k].event, old, c.emits[k].payload);
                }
                _ => {
                    let new = nm.fresh(r, "event");
                    let old = std::mem::replace(&mut c.emits[k].event, new.clone());
                    desc = format!("rename event '{}' -> '{}'", old, new);
                }
            }
        }
        "duplicate_emit" => {
            // a second call site of an event that is already emitted (same payload)
            let with: Vec<String> = m.functions().iter().filter(|c| !c.emits.is_empty()).map(|c| c.name.clone()).collect();
            let n = pick(r, &with)?;
            let c = m2.cmd_mut(&n)?;
            let k = r.below(c.emits.len() as u64) as usize;
            let e = c.emits[k].clone();
            desc = format!("emit '{}' a second time in {}", e.event, n);
            c.emits.push(e);
        }
        "swap_emits" => {
            let with: Vec<String> = m.functions().iter().filter(|c| c.emits.len() >= 2 && c.emits[0] != c.emits[1]).map(|c| c.name.clone()).collect();
            let n = pick(r, &with)?;
            let c = m2.cmd_mut(&n)?;
            c.emits.swap(0, 1);
            desc = format!("swap the first two emit calls of {}", n);
        }
        "make_type_reachable" => {
            let n = pick(r, &cmd_names)?;
            let tname = nm.fresh(r, "type");
            let s = StructDef {
                name: tname.clone(),
                fields: vec![Field { name: nm.fresh(r, "field"), ty: Ty::Prim("String".into()), public: true, rename: None, skip: false, validate: None }],
                rename_all: None,
                serde: true,
                qualified_derive: false,
            };
            let k = r.below(m2.files.len() as u64) as usize;
            m2.files[k].items.push(Item::Struct(s));
            let pname = nm.fresh(r, "field");
            m2.cmd_mut(&n)?.params.push(Param { name: pname, ty: Ty::Named(tname.clone()) });
            desc = format!("new type {} referenced from {}", tname, n);
        }
        "move_type_to_other_file" => {
            if m2.files.len() < 2 {
                return None;
            }
            let reach = reachable_types(m);
            let names: Vec<String> = reach.into_iter().collect();
            let n = pick(r, &names)?;
            let from = m2.files.iter().position(|f| f.items.iter().any(|i| i.name() == Some(&n) && !matches!(i, Item::Cmd(_))))?;
            let ii = m2.files[from].items.iter().position(|i| i.name() == Some(&n))?;
            let it = m2.files[from].items.remove(ii);
            let to = (from + 1 + r.below(m2.files.len() as u64 - 1) as usize) % m2.files.len();
            desc = format!("move type {} from {} to {}", n, m2.files[from].path, m2.files[to].path);
            m2.files[to].items.push(it);
        }
        "delete_source_file" => {
            // a whole file goes away (with whatever it declared); at least one command stays
            let cands: Vec<usize> = (0..m2.files.len())
                .filter(|k| {
                    let rest: usize = m2.files.iter().enumerate().filter(|(j, _)| j != k).map(|(_, f)| f.items.iter().filter(|i| matches!(i, Item::Cmd(c) if c.is_command)).count()).sum();
                    rest >= 1 && !m2.files[*k].items.is_empty()
                })
                .collect();
            if m2.files.len() < 2 || cands.is_empty() {
                return None;
            }
            let k = *r.pick(&cands);
            let f = m2.files.remove(k);
            desc = format!("delete source file {}", f.path);
        }
        "comment" => {
            let k = r.below(m2.files.len() as u64) as usize;
            m2.files[k].items.insert(0, Item::Raw(format!("// note: {} {}\n\n", r.pick(WORDS), r.range(1, 999))));
            desc = "insert a comment".into();
        }
        "decoy_fn" => {
            let k = r.below(m2.files.len() as u64) as usize;
            m2.files[k].items.push(Item::Raw(format!("fn helper_{}() -> i32 {{\n    {}\n}}\n", nm.fresh(r, "cmd"), r.range(1, 99))));
            desc = "add a plain helper function".into();
        }
        "add_unreferenced_serde_type" => {
            // a serde type nothing refers to: indexed by the analyzer, never emitted
            let k = r.below(m2.files.len() as u64) as usize;
            let name = nm.fresh(r, "type");
            m2.files[k].items.push(Item::Struct(StructDef {
                name: name.clone(),
                fields: vec![Field { name: nm.fresh(r, "field"), ty: Ty::Prim("String".into()), public: true, rename: None, skip: false, validate: None }],
                rename_all: None,
                serde: true,
                qualified_derive: false,
            }));
            desc = format!("add an unreferenced serde type {}", name);
        }
        "non_serde_type" => {
            let k = r.below(m2.files.len() as u64) as usize;
            m2.files[k].items.push(Item::Struct(StructDef {
                name: nm.fresh(r, "type"),
                fields: vec![Field { name: nm.fresh(r, "field"), ty: Ty::Prim("i32".into()), public: true, rename: None, skip: false, validate: None }],
                rename_all: None,
                serde: false,
                qualified_derive: false,
            }));
            desc = "add a non-serde struct".into();
        }
        _ => return None,
    }
    if m2 == *m {
        return None;
    }
    Some((m2, desc))
}
