//! Check driver: case generation from one seed, static work distribution over
//! worker *processes* (a worker owns its working directory), minimisation,
//! replay files, known findings, evidence.

use crate::interpose::{Op, ProcSpec};
use crate::process::{self, Call, ProcResult, Status};
use crate::rng::{fnv, mix};
use crate::world::{diff, Change, Snapshot, World};
use serde::{Deserialize, Serialize};
use serde_json::{json, Value};
use std::collections::{BTreeMap, BTreeSet};
use std::io::Write as _;
use std::path::{Path, PathBuf};
use std::time::Instant;

/// The verification directory this binary belongs to: <verif>/sim/target/release/ttg-sim
/// (so that a copy of /verif running elsewhere writes its evidence and replays there).
pub fn verif_dir() -> String {
    if let Ok(exe) = std::env::current_exe() {
        if let Some(root) = exe.ancestors().nth(4) {
            if root.join("sim").is_dir() && root.join("properties.jsonl").is_file() {
                return root.to_string_lossy().into_owned();
            }
        }
    }
    "/verif".to_string()
}

#[derive(Clone, Copy, Debug, PartialEq, Eq)]
pub enum Tier {
    Quick,
    Thorough,
}
impl Tier {
    pub fn name(self) -> &'static str {
        match self {
            Tier::Quick => "quick",
            Tier::Thorough => "thorough",
        }
    }
    pub fn parse(s: &str) -> Tier {
        if s == "thorough" {
            Tier::Thorough
        } else {
            Tier::Quick
        }
    }
}

#[derive(Clone, Debug, Serialize, Deserialize)]
pub struct Violation {
    /// class of the failure, specific enough to tell different breaks apart
    pub signature: String,
    /// which oracle clause failed
    pub clause: String,
    pub detail: String,
    /// optional pointer for the minimiser (e.g. which enumerated fault failed)
    #[serde(default)]
    pub hint: Option<Value>,
}

#[derive(Clone, Debug, Default, Serialize, Deserialize)]
pub struct CaseOut {
    pub violations: Vec<Violation>,
    pub discard: Option<String>,
    pub harness_error: Option<String>,
    /// keys counted for `distinct_nontrivial`
    pub tags: Vec<String>,
    pub counters: BTreeMap<String, u64>,
    /// keys counted as distinct per named reach measure: (measure, key)
    pub reach: Vec<(String, String)>,
    pub sample: Option<Value>,
    pub digest: u64,
}

impl CaseOut {
    pub fn count(&mut self, k: &str, n: u64) {
        *self.counters.entry(k.to_string()).or_insert(0) += n;
    }
    pub fn violate(&mut self, signature: String, clause: &str, detail: String) {
        if !self.violations.iter().any(|v| v.signature == signature) {
            self.violations.push(Violation { signature, clause: clause.to_string(), detail, hint: None });
        }
    }
    pub fn violate_hint(&mut self, signature: String, clause: &str, detail: String, hint: Value) {
        if !self.violations.iter().any(|v| v.signature == signature) {
            self.violations.push(Violation { signature, clause: clause.to_string(), detail, hint: Some(hint) });
        }
    }
    pub fn reach(&mut self, measure: &str, key: String) {
        self.reach.push((measure.to_string(), key));
    }
}

pub trait Check: Sync {
    fn id(&self) -> &'static str;
    fn name(&self) -> &'static str;
    fn level(&self) -> &'static str;
    fn cases(&self, tier: Tier) -> u64;
    fn gen(&self, seed: u64, i: u64, tier: Tier) -> Value;
    fn exec(&self, env: &mut Env, case: &Value) -> CaseOut;
    /// simpler variants of a failing case, most aggressive first
    fn shrink(&self, case: &Value, hint: Option<&Value>) -> Vec<Value>;
    fn rule(&self) -> String;
    fn assumptions(&self) -> Vec<String>;
}

// ---------------------------------------------------------------------------
// Env: what a worker owns
// ---------------------------------------------------------------------------

pub struct RunOut {
    pub res: ProcResult,
    pub before: Snapshot,
    pub after: Snapshot,
}

pub struct Env {
    pub base: PathBuf,
    seq: u64,
    pub procs: u64,
    pub sim_ns: i128,
    pub faults_planned: BTreeMap<String, u64>,
    pub faults_fired: BTreeMap<String, u64>,
    pub intercepts: BTreeMap<String, u64>,
    pub leak_checks: u64,
    pub leak_failures: Vec<String>,
    digest: u64,
}

impl Env {
    pub fn new(tag: &str) -> Env {
        // fixed width: the length of the absolute world root ends up in file sizes (absolute
        // output paths in configuration files), which are part of the event log
        let base = PathBuf::from(format!("/dev/shm/ttg-sim/{:>10.10}-{:010}", tag, std::process::id()).replace(' ', "_"));
        let _ = std::fs::remove_dir_all(&base);
        std::fs::create_dir_all(&base).expect("create /dev/shm work dir");
        Env {
            base,
            seq: 0,
            procs: 0,
            sim_ns: 0,
            faults_planned: BTreeMap::new(),
            faults_fired: BTreeMap::new(),
            intercepts: BTreeMap::new(),
            leak_checks: 0,
            leak_failures: vec![],
            digest: 0,
        }
    }
    pub fn cleanup(&self) {
        let _ = std::env::set_current_dir("/");
        let _ = std::fs::remove_dir_all(&self.base);
    }
    /// a fresh, empty world (always the same path inside a worker so that
    /// absolute paths in outputs do not depend on the case number)
    pub fn world(&mut self) -> World {
        self.seq += 1;
        let _ = std::env::set_current_dir("/");
        World::create(&self.base.join("w"))
    }
    pub fn take_digest(&mut self) -> u64 {
        std::mem::take(&mut self.digest)
    }
    fn note(&mut self, s: &[u8]) {
        self.digest = self.digest.rotate_left(9) ^ fnv(s);
    }
    pub fn note_str(&mut self, s: &str) {
        self.note(s.as_bytes());
    }

    /// Run an API-level workload as a simulated process (no world, no snapshots).
    pub fn run_func(&mut self, spec: ProcSpec, call: Call) -> ProcResult {
        let res = process::run(Path::new("/"), spec, call);
        self.procs += 1;
        self.sim_ns += res.sim_ns;
        for (k, v) in &res.counts {
            *self.intercepts.entry(k.to_string()).or_insert(0) += *v;
        }
        let log = format!("{}|{}|{}", res.status.short(), res.stdout, res.stderr);
        self.note(log.as_bytes());
        res
    }

    /// Run one simulated process in `world` with before/after snapshots and
    /// the leak detector.
    pub fn run(&mut self, world: &World, cwd: &Path, spec: ProcSpec, call: Call) -> RunOut {
        for f in &spec.faults {
            *self.faults_planned.entry(f.kind.label().to_string()).or_insert(0) += 1;
        }
        if spec.chunk_seed.is_some() {
            *self.faults_planned.entry("chunked_writes(process)".into()).or_insert(0) += 1;
        }
        let before = world.snapshot();
        let mut spec = spec;
        if spec.jail.is_none() {
            spec.jail = Some(world.root.to_string_lossy().into_owned());
        }
        let res = process::run(cwd, spec, call);
        let _ = std::env::set_current_dir("/");
        if std::env::var_os("VERIF_DEBUG_TRACE").is_some() {
            // debugging aid for replays: the recorded calls of every simulated process, on stderr
            eprintln!("--- process: {} ; fired {:?}", res.status.short(), res.fired);
            for e in &res.trace {
                eprintln!("    {:>3} {} {} {} ret={} errno={} fault={:?}{}", e.seq, e.op.name(), e.path, e.path2, e.ret, e.errno, e.fault, if e.frozen { " (frozen)" } else { "" });
            }
            eprintln!("    stderr: {}", res.stderr.replace('\n', " | "));
        }
        let after = world.snapshot();
        self.procs += 1;
        self.sim_ns += res.sim_ns;
        for (k, _) in &res.fired {
            *self.faults_fired.entry(k.clone()).or_insert(0) += 1;
        }
        for (k, v) in &res.counts {
            *self.intercepts.entry(k.to_string()).or_insert(0) += *v;
        }
        // event log digest: status, trace, resulting world
        let root = world.root.to_string_lossy().into_owned();
        let mut log = String::new();
        log.push_str(&res.status.short());
        for e in &res.trace {
            log.push_str(&format!(
                "|{}:{}:{}:{}:{}:{}",
                e.op.name(),
                e.path.replace(&root, "<W>"),
                e.len,
                e.ret,
                e.errno,
                e.frozen
            ));
        }
        self.note(log.as_bytes());
        self.note(&crate::world::snap_digest(&after, &root).to_le_bytes());
        self.note(res.stdout.replace(&root, "<W>").as_bytes());
        // leak detector
        self.leak_checks += 1;
        if res.status != Status::Hang {
            let d = diff(&before, &after);
            for (rel, ch) in &d {
                let abs = format!("{}/{}", root, rel);
                let explained = res.trace.iter().any(|e| {
                    !e.frozen
                        && e.op.is_mut()
                        && (e.path == abs
                            || e.path2 == abs
                            || (e.op == Op::Rename && (abs.starts_with(&format!("{}/", e.path)) || abs.starts_with(&format!("{}/", e.path2))))
                            || (e.op == Op::Rmdir && *ch == Change::Deleted && abs.starts_with(&e.path)))
                });
                if !explained {
                    self.leak_failures.push(format!(
                        "{:?} {} has no traced mutating call (seam leak)",
                        ch, rel
                    ));
                }
            }
        }
        RunOut { res, before, after }
    }
}

// ---------------------------------------------------------------------------
// Known findings
// ---------------------------------------------------------------------------

#[derive(Clone, Debug, Serialize, Deserialize)]
pub struct Finding {
    pub property: String,
    pub signature: String,
    pub status: String,
    pub what: String,
    #[serde(default)]
    pub commit: Option<String>,
}

pub fn load_findings() -> Vec<Finding> {
    let p = format!("{}/known_findings.json", verif_dir());
    match std::fs::read_to_string(&p) {
        Ok(s) => {
            let v: Value = serde_json::from_str(&s).expect("known_findings.json parses");
            serde_json::from_value(v["findings"].clone()).expect("known_findings.json shape")
        }
        Err(_) => vec![],
    }
}

pub fn known<'a>(fs: &'a [Finding], prop: &str, sig: &str) -> Option<&'a Finding> {
    fs.iter().find(|f| {
        f.property == prop
            && f.status == "known"
            && (f.signature == sig
                || (f.signature.ends_with('*') && sig.starts_with(f.signature.trim_end_matches('*'))))
    })
}

// ---------------------------------------------------------------------------
// Minimisation
// ---------------------------------------------------------------------------

pub fn minimise(check: &dyn Check, env: &mut Env, case: &Value, signature: &str, hint: Option<&Value>, budget: usize) -> (Value, usize) {
    let mut best = case.clone();
    let mut tries = 0usize;
    let mut progress = true;
    while progress && tries < budget {
        progress = false;
        for cand in check.shrink(&best, hint) {
            if tries >= budget {
                break;
            }
            tries += 1;
            let out = check.exec(env, &cand);
            if out.harness_error.is_none()
                && out.discard.is_none()
                && out.violations.iter().any(|v| v.signature == signature)
            {
                best = cand;
                progress = true;
                break;
            }
        }
    }
    (best, tries)
}

// ---------------------------------------------------------------------------
// Worker
// ---------------------------------------------------------------------------

pub fn case_seed(seed: u64, check: &str, i: u64) -> u64 {
    mix(seed, check, i)
}

pub fn worker(check: &dyn Check, tier: Tier, seed: u64, k: u64, n: u64, limit: Option<u64>, no_min: bool, start_from: u64) {
    let mut env = Env::new(&format!("{}-w{:02}", check.id(), k));
    let findings = load_findings();
    let total = limit.unwrap_or_else(|| check.cases(tier));
    let out = std::io::stdout();
    let mut minimised: BTreeMap<String, u32> = BTreeMap::new();
    let mut i = k;
    // (a worker restarted after the process died in one of its cases goes on behind that case)
    while i < start_from {
        i += n;
    }
    while i < total {
        let case = check.gen(seed, i, tier);
        env.take_digest();
        let leaks_before = env.leak_failures.len();
        // a bug in an oracle must cost one case, not the rest of the worker's share
        let mut co = match std::panic::catch_unwind(std::panic::AssertUnwindSafe(|| check.exec(&mut env, &case))) {
            Ok(co) => co,
            Err(p) => {
                let msg = p.downcast_ref::<&str>().map(|s| s.to_string()).or_else(|| p.downcast_ref::<String>().cloned()).unwrap_or_else(|| "panic".into());
                CaseOut { harness_error: Some(format!("oracle panicked: {}", msg)), ..Default::default() }
            }
        };
        co.digest = env.take_digest();
        if env.leak_failures.len() > leaks_before && co.harness_error.is_none() {
            co.harness_error = Some(env.leak_failures[leaks_before..].join("; "));
        }
        let gen_errs: Vec<String> = crate::world::GENERATOR_ERRORS.with(|g| std::mem::take(&mut *g.borrow_mut()));
        if !gen_errs.is_empty() && co.harness_error.is_none() {
            co.harness_error = Some(format!("workload generator: {}", gen_errs[0]));
        }
        let mut replays: Vec<Value> = vec![];
        if co.harness_error.is_none() {
            for v in &co.violations {
                if known(&findings, check.id(), &v.signature).is_some() {
                    continue;
                }
                let c = minimised.entry(v.signature.clone()).or_insert(0);
                if *c >= 1 {
                    continue;
                }
                *c += 1;
                let (min_case, tries) = if no_min {
                    (case.clone(), 0)
                } else {
                    minimise(check, &mut env, &case, &v.signature, v.hint.as_ref(), 120)
                };
                // the detail of the minimised case
                let mo = check.exec(&mut env, &min_case);
                let mv = mo.violations.iter().find(|x| x.signature == v.signature).cloned().unwrap_or_else(|| v.clone());
                replays.push(json!({
                    "property": check.id(),
                    "check": check.name(),
                    "verif_seed": seed,
                    "case_index": i,
                    "tier": tier.name(),
                    "signature": v.signature,
                    "clause": mv.clause,
                    "detail": mv.detail,
                    "minimise_attempts": tries,
                    "case": min_case,
                }));
            }
        }
        let line = json!({"i": i, "out": co, "replays": replays});
        let mut lock = out.lock();
        let _ = writeln!(lock, "CASE {}", line);
        drop(lock);
        i += n;
    }
    let stats = json!({
        "procs": env.procs,
        "sim_ns": env.sim_ns.to_string(),
        "faults_planned": env.faults_planned,
        "faults_fired": env.faults_fired,
        "intercepts": env.intercepts,
        "leak_checks": env.leak_checks,
    });
    println!("STATS {}", stats);
    env.cleanup();
}

// ---------------------------------------------------------------------------
// Parent
// ---------------------------------------------------------------------------

pub struct Merged {
    pub cases: BTreeMap<u64, CaseOut>,
    pub replays: Vec<Value>,
    pub procs: u64,
    pub sim_ns: i128,
    pub faults_planned: BTreeMap<String, u64>,
    pub faults_fired: BTreeMap<String, u64>,
    pub intercepts: BTreeMap<String, u64>,
    pub leak_checks: u64,
    pub worker_failures: Vec<String>,
    /// worker slots that stopped early after many cases that killed the process
    pub slots_gave_up: u64,
}

/// What one worker slot produced: the output of every worker process started for it (a slot is
/// restarted behind a case that killed the whole process) and the cases that did so.
struct SlotResult {
    outputs: Vec<std::process::Output>,
    died_in: Vec<(u64, String)>,
}

fn run_slot(check_id: &str, tier: Tier, seed: u64, k: u64, workers: u64, limit: Option<u64>, no_min: bool, total: u64) -> SlotResult {
    let exe = std::env::current_exe().expect("current_exe");
    let mut res = SlotResult { outputs: vec![], died_in: vec![] };
    let mut start_from = 0u64;
    for _attempt in 0..12 {
        let outp = std::process::Command::new(&exe)
            .arg("worker")
            .arg(check_id)
            .arg(tier.name())
            .arg(seed.to_string())
            .arg(k.to_string())
            .arg(workers.to_string())
            .arg(limit.map(|l| l.to_string()).unwrap_or_else(|| "-".into()))
            .arg(if no_min { "nomin" } else { "min" })
            .arg(start_from.to_string())
            .stdout(std::process::Stdio::piped())
            .stderr(std::process::Stdio::piped())
            .output()
            .expect("run worker");
        let text = String::from_utf8_lossy(&outp.stdout).into_owned();
        let saw_stats = text.lines().any(|l| l.starts_with("STATS "));
        let killed = outp.status.code().is_none();
        let last_i: Option<u64> = text
            .lines()
            .filter_map(|l| l.strip_prefix("CASE "))
            .filter_map(|j| serde_json::from_str::<Value>(j).ok())
            .filter_map(|v| v["i"].as_u64())
            .max();
        let err_tail: String = String::from_utf8_lossy(&outp.stderr).chars().rev().take(300).collect::<String>().chars().rev().collect();
        res.outputs.push(outp);
        if saw_stats || !killed {
            break;
        }
        // killed by a signal in the middle of its share: the case it was executing
        let mut next = k;
        while next < start_from {
            next += workers;
        }
        if let Some(l) = last_i {
            next = next.max(l + workers);
        }
        if next >= total {
            break;
        }
        res.died_in.push((next, err_tail.replace('\n', " | ")));
        start_from = next + 1;
    }
    res
}

pub fn run_workers(check: &dyn Check, tier: Tier, seed: u64, workers: u64, limit: Option<u64>, no_min: bool) -> Merged {
    let check_id = check.id();
    let total = limit.unwrap_or_else(|| check.cases(tier));
    let mut m = Merged {
        cases: BTreeMap::new(),
        replays: vec![],
        procs: 0,
        sim_ns: 0,
        faults_planned: BTreeMap::new(),
        faults_fired: BTreeMap::new(),
        intercepts: BTreeMap::new(),
        leak_checks: 0,
        worker_failures: vec![],
        slots_gave_up: 0,
    };
    // one thread per worker slot: drains its worker (a worker blocked on a full pipe would stall)
    let id_owned = check_id.to_string();
    let readers: Vec<(u64, std::thread::JoinHandle<SlotResult>)> = (0..workers)
        .map(|k| {
            let id = id_owned.clone();
            (k, std::thread::spawn(move || run_slot(&id, tier, seed, k, workers, limit, no_min, total)))
        })
        .collect();
    for (k, h) in readers {
        let slot = h.join().expect("reader thread");
        // A case whose simulated run takes the whole process down (stack overflow, abort) cannot
        // report itself: it is reported here, as a violation, with the generated case as replay.
        for (i, why) in &slot.died_in {
            let sig = format!("{}/process-died", check_id);
            let detail = format!("the worker executing case {} was killed by a signal: {}", i, why);
            let mut co = CaseOut::default();
            co.violate(sig.clone(), "a run of the tool ends normally (a stack overflow or abort takes the whole process down)", detail.clone());
            m.cases.insert(*i, co);
            m.replays.push(json!({
                "property": check_id,
                "check": check.name(),
                "verif_seed": seed,
                "case_index": i,
                "tier": tier.name(),
                "signature": sig,
                "clause": "a run of the tool ends normally (a stack overflow or abort takes the whole process down)",
                "detail": detail,
                "minimise_attempts": 0,
                "case": check.gen(seed, *i, tier),
            }));
        }
        let n_out = slot.outputs.len();
        for (oi, outp) in slot.outputs.into_iter().enumerate() {
        let last_attempt = oi + 1 == n_out;
        let text = String::from_utf8_lossy(&outp.stdout);
        let mut saw_stats = false;
        for line in text.lines() {
            if let Some(j) = line.strip_prefix("CASE ") {
                match serde_json::from_str::<Value>(j) {
                    Ok(v) => {
                        let i = v["i"].as_u64().unwrap();
                        let co: CaseOut = serde_json::from_value(v["out"].clone()).expect("case out");
                        m.cases.insert(i, co);
                        if let Some(rs) = v["replays"].as_array() {
                            m.replays.extend(rs.iter().cloned());
                        }
                    }
                    Err(e) => m.worker_failures.push(format!("worker {} bad line: {}", k, e)),
                }
            } else if let Some(j) = line.strip_prefix("STATS ") {
                saw_stats = true;
                let v: Value = serde_json::from_str(j).unwrap();
                m.procs += v["procs"].as_u64().unwrap_or(0);
                m.sim_ns += v["sim_ns"].as_str().unwrap_or("0").parse::<i128>().unwrap_or(0);
                m.leak_checks += v["leak_checks"].as_u64().unwrap_or(0);
                for (name, dst) in [
                    ("faults_planned", &mut m.faults_planned),
                    ("faults_fired", &mut m.faults_fired),
                    ("intercepts", &mut m.intercepts),
                ] {
                    if let Some(o) = v[name].as_object() {
                        for (kk, vv) in o {
                            *dst.entry(kk.clone()).or_insert(0) += vv.as_u64().unwrap_or(0);
                        }
                    }
                }
            }
        }
        if last_attempt && outp.status.code().is_none() && !saw_stats && !slot.died_in.is_empty() {
            // the slot gave up after many deaths: every one of them is already a reported violation
            eprintln!("NOTE: worker slot {} gave up after {} cases that killed the process; the rest of its share was not evaluated", k, slot.died_in.len());
            m.slots_gave_up += 1;
        } else if last_attempt && (!outp.status.success() || !saw_stats) {
            let err = String::from_utf8_lossy(&outp.stderr);
            m.worker_failures.push(format!(
                "worker {} exited {:?}: {}",
                k,
                outp.status.code(),
                err.chars().rev().take(600).collect::<String>().chars().rev().collect::<String>()
            ));
        }
        }
    }
    m.replays.sort_by_key(|r| r["case_index"].as_u64().unwrap_or(0));
    m
}

pub fn n_workers() -> u64 {
    if let Ok(s) = std::env::var("VERIF_WORKERS") {
        if let Ok(n) = s.parse::<u64>() {
            return n.max(1);
        }
    }
    std::thread::available_parallelism().map(|n| n.get() as u64).unwrap_or(4).min(16)
}

/// Run a check; returns the process exit code.
pub fn run_check(check: &dyn Check, tier: Tier, seed: u64, limit: Option<u64>) -> i32 {
    let t0 = Instant::now();
    println!("VERIF_SEED={} check={} property={} tier={}", seed, check.name(), check.id(), tier.name());
    let workers = n_workers();
    let m = run_workers(check, tier, seed, workers, limit, false);
    let findings = load_findings();
    let total = limit.unwrap_or_else(|| check.cases(tier));

    let mut harness_errors: Vec<String> = m.worker_failures.clone();
    if m.cases.len() as u64 != total && m.slots_gave_up == 0 {
        harness_errors.push(format!("expected {} case results, got {}", total, m.cases.len()));
    }
    let mut counters: BTreeMap<String, u64> = BTreeMap::new();
    let mut tags: BTreeSet<String> = BTreeSet::new();
    let mut reach: BTreeMap<String, BTreeSet<String>> = BTreeMap::new();
    let mut samples: Vec<Value> = vec![];
    let mut discards = 0u64;
    let mut discard_reasons: BTreeMap<String, u64> = BTreeMap::new();
    let mut known_hits: BTreeMap<String, (u64, String)> = BTreeMap::new();
    let mut unknown: BTreeMap<String, (u64, Violation)> = BTreeMap::new();
    let mut n_viol_cases = 0u64;
    for (i, co) in &m.cases {
        if let Some(h) = &co.harness_error {
            harness_errors.push(format!("case {}: {}", i, h));
            continue;
        }
        if let Some(d) = &co.discard {
            discards += 1;
            *discard_reasons.entry(d.clone()).or_insert(0) += 1;
            continue;
        }
        for (k, v) in &co.counters {
            *counters.entry(k.clone()).or_insert(0) += *v;
        }
        for t in &co.tags {
            tags.insert(t.clone());
        }
        for (mname, key) in &co.reach {
            reach.entry(mname.clone()).or_default().insert(key.clone());
        }
        if let Some(s) = &co.sample {
            if samples.len() < 3 {
                samples.push(s.clone());
            }
        }
        if !co.violations.is_empty() {
            n_viol_cases += 1;
        }
        for v in &co.violations {
            match known(&findings, check.id(), &v.signature) {
                Some(f) => {
                    let e = known_hits.entry(f.signature.clone()).or_insert((0, f.what.clone()));
                    e.0 += 1;
                }
                None => {
                    let e = unknown.entry(v.signature.clone()).or_insert((0, v.clone()));
                    e.0 += 1;
                }
            }
        }
    }
    // A case is discarded when its fault-free set-up does not behave as the scenario needs (for
    // example because the tree under test breaks ANOTHER property). Few discards are normal; more
    // than 5% are reported loudly (and stay in the evidence); only when most of the workload could
    // not be evaluated is the run itself an error - a check that explored next to nothing must not
    // say "held".
    if total > 0 && discards * 2 > total {
        harness_errors.push(format!(
            "{} of {} generated cases were rejected by the fault-free reference run (>50%): {:?}",
            discards, total, discard_reasons
        ));
    } else if total > 0 && discards * 20 > total {
        eprintln!(
            "NOTE: {} of {} generated cases were discarded by the fault-free reference run (>5%; evaluated {}): {:?}",
            discards,
            total,
            total - discards,
            discard_reasons
        );
    }

    // replay files for unknown signatures; confirm each in a fresh process
    let mut violation_lines: Vec<String> = vec![];
    let replay_dir = format!("{}/replays", verif_dir());
    let _ = std::fs::create_dir_all(&replay_dir);
    let mut written: BTreeSet<String> = BTreeSet::new();
    for r in &m.replays {
        let sig = r["signature"].as_str().unwrap_or("").to_string();
        if !unknown.contains_key(&sig) || written.contains(&sig) {
            continue;
        }
        written.insert(sig.clone());
        let fname = format!(
            "{}/{}-{}-{}-{:08x}.json",
            replay_dir,
            check.id(),
            seed,
            r["case_index"].as_u64().unwrap_or(0),
            fnv(sig.as_bytes()) as u32
        );
        std::fs::write(&fname, serde_json::to_string_pretty(r).unwrap()).expect("write replay");
        // fresh-process confirmation
        let exe = std::env::current_exe().unwrap();
        let st = std::process::Command::new(&exe)
            .arg("replay")
            .arg(&fname)
            .stdout(std::process::Stdio::piped())
            .stderr(std::process::Stdio::piped())
            .output()
            .expect("spawn replay");
        let died_again = sig.ends_with("/process-died") && st.status.code().is_none();
        if st.status.code() == Some(1) || died_again {
            violation_lines.push(format!("VIOLATION property={} replay={}", check.id(), fname));
            println!("  signature: {}", sig);
            println!("  clause:    {}", r["clause"].as_str().unwrap_or(""));
            println!("  detail:    {}", r["detail"].as_str().unwrap_or(""));
        } else {
            harness_errors.push(format!(
                "replay of {} in a fresh process did not reproduce (exit {:?}): simulator nondeterminism",
                fname,
                st.status.code()
            ));
        }
    }
    for sig in unknown.keys() {
        if !written.contains(sig) {
            harness_errors.push(format!("violation {} has no replay record", sig));
        }
    }

    let wall = t0.elapsed().as_secs_f64();
    let cases_run = m.cases.len() as u64 - discards;
    // a check whose cases fan out (C17: one scenario = many injected faults) reports the
    // number of judged executions itself
    let evaluations = match counters.remove("__evaluations") {
        Some(n) if n > 0 => n,
        _ => cases_run,
    };
    let per_hour = |n: u64| if wall > 0.0 { (n as f64 / wall * 3600.0) as u64 } else { 0 };
    let reach_counts: BTreeMap<String, usize> = reach.iter().map(|(k, v)| (k.clone(), v.len())).collect();
    let evidence = json!({
        "property_id": check.id(),
        "tier": tier.name(),
        "seed": seed,
        "level": check.level(),
        "wall_s": wall,
        "violations": unknown.values().map(|x| x.0).sum::<u64>(),
        "coverage": {
            "evaluations": evaluations,
            "distinct_nontrivial": tags.len(),
            "rule": check.rule(),
            "samples": samples,
            "exhaustive": false,
            "cases": cases_run,
            "cases_discarded": discards,
            "discard_reasons": discard_reasons,
            "cases_with_violation": n_viol_cases,
            "simulated_processes": m.procs,
            "simulated_processes_per_hour": per_hour(m.procs),
            "seeds_per_hour": per_hour(cases_run),
            "simulated_time_covered_s": (m.sim_ns / 1_000_000) as f64 / 1000.0,
            "faults": { "planned": m.faults_planned, "fired": m.faults_fired },
            "reach": reach_counts,
            "counters": counters,
            "seam": {
                "intercepted_calls_by_symbol": m.intercepts,
                "leak_detector_runs": m.leak_checks,
                "leak_detector_failures": harness_errors.iter().filter(|e| e.contains("seam leak")).count(),
            },
            "workers": workers,
            "components": {
                "real": ["tauri_typegen library (whole crate, built from /repo working tree)", "run_generate / run_init (included from src/bin/cargo-tauri-typegen.rs)", "BuildSystem::generate_at_build_time", "clap argument parsing", "std, syn, walkdir, serde_json, tera, chrono, indicatif", "kernel tmpfs as block store"],
                "stub": ["libc entry points (open/write/read/close/mkdir/unlink/rename/readdir64/getrandom/clock_gettime/... defined by the simulator, forwarding to raw syscalls unless a fault fires)", "entropy source (hash seeds)", "wall clock", "directory enumeration order", "process lifecycle (thread per process, frozen disk for death)", "main()'s dispatch and exit-status mapping"],
            },
            "known_findings_hit": known_hits.iter().map(|(k, v)| json!({"signature": k, "cases": v.0})).collect::<Vec<_>>(),
            "unknown_violation_signatures": unknown.iter().map(|(k, v)| json!({"signature": k, "cases": v.0})).collect::<Vec<_>>(),
            "harness_errors": harness_errors,
        },
        "assumptions": check.assumptions(),
    });
    let ev_dir = format!("{}/evidence", verif_dir());
    let _ = std::fs::create_dir_all(&ev_dir);
    std::fs::write(
        format!("{}/{}.json", ev_dir, check.id()),
        serde_json::to_string_pretty(&evidence).unwrap(),
    )
    .expect("write evidence");

    println!(
        "cases={} discarded={} processes={} wall={:.1}s distinct_nontrivial={} reach={:?}",
        cases_run, discards, m.procs, wall, tags.len(), reach_counts
    );
    for (sig, (n, what)) in &known_hits {
        println!("KNOWN-FINDING: property={} {} [{}; {} cases]", check.id(), what, sig, n);
    }
    if !harness_errors.is_empty() {
        for e in harness_errors.iter().take(10) {
            eprintln!("HARNESS-ERROR: {}", e);
        }
        for l in &violation_lines {
            println!("{}", l);
        }
        return 2;
    }
    if !violation_lines.is_empty() {
        for l in &violation_lines {
            println!("{}", l);
        }
        return 1;
    }
    println!("OK property={} held on everything explored", check.id());
    0
}

pub fn replay(checks: &[&dyn Check], file: &str) -> i32 {
    let text = match std::fs::read_to_string(file) {
        Ok(t) => t,
        Err(e) => {
            eprintln!("cannot read {}: {}", file, e);
            return 2;
        }
    };
    let v: Value = match serde_json::from_str(&text) {
        Ok(v) => v,
        Err(e) => {
            eprintln!("bad replay file: {}", e);
            return 2;
        }
    };
    let prop = v["property"].as_str().unwrap_or("");
    let Some(check) = checks.iter().find(|c| c.id() == prop) else {
        eprintln!("unknown property {}", prop);
        return 2;
    };
    let sig = v["signature"].as_str().unwrap_or("");
    if sig.ends_with("/process-died") && std::env::var_os("TTG_REPLAY_INNER").is_none() {
        // the recorded violation is that executing this case takes the whole process down:
        // execute it in a child and report what becomes of the child
        let exe = std::env::current_exe().expect("current_exe");
        let st = std::process::Command::new(exe).arg("replay").arg(file).env("TTG_REPLAY_INNER", "1").stdout(std::process::Stdio::null()).stderr(std::process::Stdio::null()).status();
        println!("replay {}: recorded signature {}", file, sig);
        return match st {
            Ok(st) if st.code().is_none() => {
                println!("  observed: the process executing the case was killed by a signal again");
                println!("VIOLATION property={} replay={}", prop, file);
                1
            }
            Ok(_) => {
                println!("not reproduced");
                0
            }
            Err(e) => {
                eprintln!("HARNESS-ERROR: cannot start the replay child: {}", e);
                2
            }
        };
    }
    let mut env = Env::new(&format!("{}-replay", prop));
    let out = check.exec(&mut env, &v["case"]);
    env.cleanup();
    if let Some(h) = out.harness_error {
        eprintln!("HARNESS-ERROR: {}", h);
        return 2;
    }
    println!("replay {}: recorded signature {}", file, sig);
    for x in &out.violations {
        println!("  observed: {} | {} | {}", x.signature, x.clause, x.detail);
    }
    if out.violations.iter().any(|x| x.signature == sig) {
        println!("VIOLATION property={} replay={}", prop, file);
        1
    } else {
        println!("not reproduced");
        0
    }
}

/// Determinism proof: the same cases, executed in separate OS processes at
/// different worker counts, must produce identical event-log digests.
pub fn determinism(check: &dyn Check, seed: u64, n_cases: u64) -> Result<u64, String> {
    let a = run_workers(check, Tier::Quick, seed, 1, Some(n_cases), true);
    let b = run_workers(check, Tier::Quick, seed, 4, Some(n_cases), true);
    let c = run_workers(check, Tier::Quick, seed, 16, Some(n_cases), true);
    for m in [&a, &b, &c] {
        if !m.worker_failures.is_empty() {
            return Err(format!("worker failure: {:?}", m.worker_failures));
        }
    }
    for i in 0..n_cases {
        let (x, y, z) = (a.cases.get(&i), b.cases.get(&i), c.cases.get(&i));
        match (x, y, z) {
            (Some(x), Some(y), Some(z)) => {
                let sx: Vec<&String> = x.violations.iter().map(|v| &v.signature).collect();
                let sy: Vec<&String> = y.violations.iter().map(|v| &v.signature).collect();
                if x.digest != y.digest || x.digest != z.digest || sx != sy {
                    return Err(format!(
                        "{} case {}: event-log digests differ between executions ({:x} {:x} {:x})",
                        check.id(), i, x.digest, y.digest, z.digest
                    ));
                }
            }
            _ => return Err(format!("{} case {} missing", check.id(), i)),
        }
    }
    Ok(n_cases)
}
