//! One integer decides everything: splitmix64 seeding + xoshiro256** streams.
//! Streams are split by label so that removing one decision does not shift
//! the others.

#[derive(Clone, Debug)]
pub struct Rng {
    s: [u64; 4],
}

pub fn splitmix64(x: &mut u64) -> u64 {
    *x = x.wrapping_add(0x9e37_79b9_7f4a_7c15);
    let mut z = *x;
    z = (z ^ (z >> 30)).wrapping_mul(0xbf58_476d_1ce4_e5b9);
    z = (z ^ (z >> 27)).wrapping_mul(0x94d0_49bb_1331_11eb);
    z ^ (z >> 31)
}

/// FNV-1a, for deriving stream seeds from labels and for content hashes.
pub fn fnv(bytes: &[u8]) -> u64 {
    let mut h: u64 = 0xcbf2_9ce4_8422_2325;
    for b in bytes {
        h ^= *b as u64;
        h = h.wrapping_mul(0x0000_0100_0000_01b3);
    }
    h
}

pub fn mix(seed: u64, label: &str, i: u64) -> u64 {
    let mut x = seed ^ fnv(label.as_bytes()).rotate_left(13) ^ i.wrapping_mul(0xd6e8_feb8_6659_fd93);
    let a = splitmix64(&mut x);
    let b = splitmix64(&mut x);
    a ^ b.rotate_left(29)
}

impl Rng {
    pub fn new(seed: u64) -> Rng {
        let mut x = seed;
        let s = [
            splitmix64(&mut x),
            splitmix64(&mut x),
            splitmix64(&mut x),
            splitmix64(&mut x),
        ];
        Rng { s }
    }
    /// independent child stream
    pub fn split(&self, label: &str) -> Rng {
        Rng::new(mix(self.s[0] ^ self.s[2].rotate_left(7), label, self.s[1]))
    }
    pub fn next_u64(&mut self) -> u64 {
        let r = self.s[1].wrapping_mul(5).rotate_left(7).wrapping_mul(9);
        let t = self.s[1] << 17;
        self.s[2] ^= self.s[0];
        self.s[3] ^= self.s[1];
        self.s[1] ^= self.s[2];
        self.s[0] ^= self.s[3];
        self.s[2] ^= t;
        self.s[3] = self.s[3].rotate_left(45);
        r
    }
    /// uniform in 0..n (n>0)
    pub fn below(&mut self, n: u64) -> u64 {
        if n <= 1 {
            return 0;
        }
        // multiply-shift; bias is irrelevant here
        ((self.next_u64() as u128 * n as u128) >> 64) as u64
    }
    pub fn range(&mut self, lo: usize, hi_incl: usize) -> usize {
        lo + self.below((hi_incl - lo + 1) as u64) as usize
    }
    pub fn chance(&mut self, num: u64, den: u64) -> bool {
        self.below(den) < num
    }
    pub fn pick<'a, T>(&mut self, xs: &'a [T]) -> &'a T {
        &xs[self.below(xs.len() as u64) as usize]
    }
    pub fn shuffle<T>(&mut self, xs: &mut [T]) {
        for i in (1..xs.len()).rev() {
            let j = self.below((i + 1) as u64) as usize;
            xs.swap(i, j);
        }
    }
}
