//! ttg-sim — deterministic simulation with fault injection for tauri-typegen.
//!
//!   ttg-sim check <C..> [quick|thorough]      run one check (parent; spawns workers)
//!   ttg-sim worker ...                         internal
//!   ttg-sim replay <file>                      re-execute a replay file
//!   ttg-sim selfcheck [n]                      seam self-test + determinism proof

mod canon;
mod edits;
mod checks;
mod harness;
mod interpose;
mod model;
mod process;
mod rng;
mod scen;
mod selftest;
mod shrink;
mod world;

use harness::{Check, Tier};

fn registry() -> Vec<&'static dyn Check> {
    vec![&checks::c08::C08, &checks::c09::C09, &checks::c13::C13, &checks::c14::C14, &checks::c16::C16, &checks::c17::C17, &checks::c20::C20]
}

fn seed_from_env() -> u64 {
    std::env::var("VERIF_SEED").ok().and_then(|s| s.parse::<u64>().ok()).unwrap_or(1)
}

fn main() {
    let args: Vec<String> = std::env::args().collect();
    let reg = registry();
    let find = |id: &str| reg.iter().copied().find(|c| c.id().eq_ignore_ascii_case(id) || c.name() == id);
    let code = match args.get(1).map(|s| s.as_str()) {
        Some("check") => {
            let id = args.get(2).cloned().unwrap_or_default();
            let tier = Tier::parse(
                &args
                    .get(3)
                    .cloned()
                    .or_else(|| std::env::var("VERIF_TIER").ok())
                    .unwrap_or_else(|| "quick".into()),
            );
            let limit = std::env::var("VERIF_CASES").ok().and_then(|s| s.parse().ok());
            match find(&id) {
                Some(c) => {
                    if let Err(e) = selftest::seam_selftest() {
                        eprintln!("HARNESS-ERROR: seam self-test: {}", e);
                        2
                    } else {
                        harness::run_check(c, tier, seed_from_env(), limit)
                    }
                }
                None => {
                    eprintln!("unknown check {}", id);
                    2
                }
            }
        }
        Some("worker") => {
            let id = &args[2];
            let tier = Tier::parse(&args[3]);
            let seed: u64 = args[4].parse().unwrap();
            let k: u64 = args[5].parse().unwrap();
            let n: u64 = args[6].parse().unwrap();
            let limit: Option<u64> = args[7].parse().ok();
            let no_min = args.get(8).map(|s| s == "nomin").unwrap_or(false);
            let c = find(id).expect("check");
            let start_from: u64 = args.get(9).and_then(|s| s.parse().ok()).unwrap_or(0);
            harness::worker(c, tier, seed, k, n, limit, no_min, start_from);
            0
        }
        Some("replay") => harness::replay(&reg, &args[2]),
        Some("render") => {
            // ttg-sim render <replay.json> <dir>: write the sources of case.model (and
            // model_after, if any) below <dir>/before and <dir>/after, for a human to look at
            let v: serde_json::Value = serde_json::from_str(&std::fs::read_to_string(&args[2]).expect("read")).expect("json");
            for (key, sub) in [("model", "before"), ("model_after", "after"), ("model_b", "after"), ("prelude", "prelude")] {
                if let Ok(m) = serde_json::from_value::<model::Model>(v["case"][key].clone()) {
                    for (p, text) in m.render() {
                        let fp = std::path::Path::new(&args[3]).join(sub).join("src-tauri").join(p);
                        std::fs::create_dir_all(fp.parent().unwrap()).unwrap();
                        std::fs::write(fp, text).unwrap();
                    }
                }
            }
            0
        }
        Some("selfcheck") => {
            let n: u64 = args.get(2).and_then(|s| s.parse().ok()).unwrap_or(32);
            let mut code = 0;
            match selftest::seam_selftest() {
                Ok(n) => println!("seam self-test: {} probes ok", n),
                Err(e) => {
                    eprintln!("HARNESS-ERROR: seam self-test: {}", e);
                    code = 2;
                }
            }
            for c in &reg {
                match harness::determinism(*c, seed_from_env(), n) {
                    Ok(k) => println!("determinism {}: {} cases x 3 executions (1, 4, 16 worker processes) identical", c.id(), k),
                    Err(e) => {
                        eprintln!("HARNESS-ERROR: {}", e);
                        code = 2;
                    }
                }
            }
            code
        }
        _ => {
            eprintln!("usage: ttg-sim check <id> [quick|thorough] | replay <file> | selfcheck [n]");
            2
        }
    };
    std::process::exit(code);
}
