//! C08 — the cache never leaves stale bindings: whenever a non-forced run
//! reports success, the output directory holds what a forced generation from
//! the current sources and configuration would write.

use crate::canon::{self, Cmp};
use crate::edits::{gen_edit, EDIT_CLASSES};
use crate::harness::{CaseOut, Check, Env, Tier};
use crate::interpose::ProcSpec;
use crate::model::{gen_model, GenParams, Model, RENAME_RULES};
use crate::process::Call;
use crate::rng::Rng;
use crate::scen::{self, gen_proc, Files};
use crate::world::{Cfg, ConfSrc, Cwd, Entry, Setup};
use serde::{Deserialize, Serialize};
use serde_json::{json, Value};

pub struct C08;

#[derive(Clone, Debug, Serialize, Deserialize)]
struct Step {
    /// "edit" | "config" | "delete_output" | "tamper_cache" | "run"
    kind: String,
    /// class of the change (edit class, config change, file name, tamper kind) or entry of the run
    label: String,
    desc: String,
    model: Option<Model>,
    cfg: Option<Cfg>,
    out: Option<String>,
    proc: Option<ProcSpec>,
    entry: Option<Entry>,
    /// simulated time of the step (seconds): runs start their clock here, edits
    /// stamp it on the files they rewrite
    #[serde(default)]
    at: i64,
    /// edits: "now" | "preserved_old" (file restored from a backup, old mtime kept)
    /// | "same_as_cache" (saved within the same second as the last run)
    #[serde(default)]
    mtime_mode: String,
    #[serde(default)]
    proj_style: Option<u8>,
}

/// start of the simulated timeline (after the real present, so that nothing the
/// harness writes with a real timestamp looks newer than a simulated one)
const T0: i64 = 1_800_000_000;

#[derive(Clone, Debug, Serialize, Deserialize)]
struct Case {
    model: Model,
    cfg: Cfg,
    setup: Setup,
    /// "never" | "current" | "other_mode"
    init_state: String,
    p_init: ProcSpec,
    steps: Vec<Step>,
}

pub const CONFIG_CHANGES: &[&str] = &[
    "mode",
    "mapping_add",
    "mapping_change",
    "mapping_remove",
    "param_case",
    "field_case",
    "include_private",
    "visualize",
    "output_path",
    "flag_mode",
    "file_mode_under_flag",
    "flag_visualize",
    "project_path_spelling",
];
pub const DELETABLE: &[&str] = &["types.ts", "commands.ts", "index.ts", "events.ts", ".typecache", "dependency-graph.txt", "dependency-graph.dot"];
pub const TAMPERS: &[&str] = &["truncate", "empty", "bitflip", "version", "wrong_shape"];

fn both_entries_possible(s: &Setup) -> bool {
    // flag overrides only exist on the CLI: a history that may use them sticks to one entry
    s.entry == Entry::Build &&
    matches!((s.cwd, s.conf), (Cwd::SrcTauri, ConfSrc::Tauri) | (Cwd::SrcTauri, ConfSrc::Standalone) | (Cwd::App, ConfSrc::Standalone))
}

/// strings that are no serde rename rule (what a typing slip leaves in a configuration file)
const UNKNOWN_CASES: &[&str] = &["snake-case", "Snake_Case", "snake", "camelcase", "lower", "Kebab-Case"];

fn gen_config_change(r: &mut Rng, class: &str, cfg: &Cfg, setup: &Setup, model: &Model) -> Option<(Cfg, Option<String>, String)> {
    let mut c = cfg.clone();
    let mut out = None;
    let desc;
    match class {
        "mode" => {
            if c.file_mode.is_some() {
                return None;
            }
            c.mode = if c.mode == "zod" { "none".into() } else { "zod".into() };
            desc = format!("validation library -> {}", c.mode);
        }
        "mapping_add" | "mapping_change" | "mapping_remove" => {
            if setup.conf == ConfSrc::Flags {
                return None;
            }
            // map a primitive the project actually uses, or a custom type name
            let mut used: Vec<String> = vec!["String".into(), "u64".into(), "i32".into(), "f64".into(), "bool".into()];
            used.extend(crate::edits::reachable_types(model));
            match class {
                "mapping_add" => {
                    let free: Vec<String> = used.into_iter().filter(|k| !c.mappings.contains_key(k)).collect();
                    if free.is_empty() {
                        return None;
                    }
                    let k = r.pick(&free).clone();
                    let v = r.pick(&["string", "number", "Date", "bigint"]).to_string();
                    desc = format!("type mapping {} -> {}", k, v);
                    c.mappings.insert(k, v);
                }
                "mapping_change" => {
                    let keys: Vec<String> = c.mappings.keys().cloned().collect();
                    if keys.is_empty() {
                        return None;
                    }
                    let k = r.pick(&keys).clone();
                    let old = c.mappings[&k].clone();
                    let v = if old == "string" { "number" } else { "string" };
                    desc = format!("type mapping {}: {} -> {}", k, old, v);
                    c.mappings.insert(k, v.into());
                }
                _ => {
                    let keys: Vec<String> = c.mappings.keys().cloned().collect();
                    if keys.is_empty() {
                        return None;
                    }
                    let k = r.pick(&keys).clone();
                    desc = format!("remove type mapping {}", k);
                    c.mappings.remove(&k);
                }
            }
        }
        "param_case" | "field_case" => {
            if setup.conf != ConfSrc::Standalone {
                return None;
            }
            let cur = if class == "param_case" { c.param_case.clone() } else { c.field_case.clone() };
            let mut v = r.pick(RENAME_RULES).to_string();
            if Some(&v) == cur.as_ref() {
                v = if v == "PascalCase" { "kebab-case".into() } else { "PascalCase".into() };
            }
            desc = format!("{} -> {}", class, v);
            if class == "param_case" {
                c.param_case = Some(v);
            } else {
                c.field_case = Some(v);
            }
        }
        // asked for by name in the fourth directed quick block (not in CONFIG_CHANGES): the setting
        // moves between the rule that is its default and a string that is no rename rule at all
        "param_case_unknown" | "field_case_unknown" => {
            if setup.conf != ConfSrc::Standalone {
                return None;
            }
            let (cur, default) = if class == "param_case_unknown" { (c.param_case.clone(), "camelCase") } else { (c.field_case.clone(), "snake_case") };
            let known = cur.as_deref().map(|x| RENAME_RULES.contains(&x)).unwrap_or(true);
            let v = if known { r.pick(UNKNOWN_CASES).to_string() } else { default.to_string() };
            desc = format!("{}: {:?} -> {:?}", class, cur, v);
            if class == "param_case_unknown" {
                c.param_case = Some(v);
            } else {
                c.field_case = Some(v);
            }
        }
        "include_private" => {
            if setup.conf == ConfSrc::Flags {
                return None;
            }
            c.include_private = Some(!c.include_private.unwrap_or(false));
            desc = format!("include_private -> {:?}", c.include_private);
        }
        "visualize" => {
            if c.flag_visualize {
                return None;
            }
            c.visualize = !c.visualize;
            desc = format!("visualize_deps -> {}", c.visualize);
        }
        "flag_mode" => {
            // -v on the command line starts (or stops) overriding the file
            if setup.entry != Entry::Cli || setup.conf == ConfSrc::Flags {
                return None;
            }
            if c.file_mode.is_some() {
                c.mode = c.file_mode.take().unwrap();
                desc = format!("drop the -v flag: the file's {} applies again", c.mode);
            } else {
                c.file_mode = Some(c.mode.clone());
                c.mode = if c.mode == "zod" { "none".into() } else { "zod".into() };
                desc = format!("-v {} on the command line overrides the file", c.mode);
            }
        }
        "file_mode_under_flag" => {
            // the file changes its mind while the flag pins the mode: output-preserving
            if setup.entry != Entry::Cli || setup.conf == ConfSrc::Flags {
                return None;
            }
            let f = c.file_mode.clone().unwrap_or_else(|| c.mode.clone());
            c.file_mode = Some(if f == "zod" { "none".into() } else { "zod".into() });
            desc = format!("file says {} but -v {} stays on the command line", c.file_mode.clone().unwrap(), c.mode);
        }
        "flag_visualize" => {
            if setup.entry != Entry::Cli || setup.conf == ConfSrc::Flags {
                return None;
            }
            if c.flag_visualize {
                c.flag_visualize = false;
                c.visualize = false;
                desc = "drop --visualize-deps".into();
            } else if !c.visualize {
                c.flag_visualize = true;
                c.visualize = true;
                desc = "--visualize-deps on the command line".into();
            } else {
                return None;
            }
        }
        "project_path_spelling" => {
            // handled by the caller (it lives in the setup); nothing changes in Cfg
            desc = "project path spelled differently".into();
        }
        "output_path" => {
            let new = if setup.out.ends_with("generated") { "app/src/bindings" } else { "app/src/generated" };
            out = Some(new.to_string());
            desc = format!("output path -> {}", new);
        }
        _ => return None,
    }
    Some((c, out, desc))
}

impl Check for C08 {
    fn id(&self) -> &'static str {
        "C08"
    }
    fn name(&self) -> &'static str {
        "stale-cache"
    }
    fn level(&self) -> &'static str {
        "exploration"
    }
    fn cases(&self, tier: Tier) -> u64 {
        match tier {
            Tier::Quick => 900 + 130 + 39 + 52 + 48,
            Tier::Thorough => 24000,
        }
    }
    fn gen(&self, seed: u64, i: u64, tier: Tier) -> Value {
        let r = Rng::new(crate::harness::case_seed(seed, "C08", i));
        let setups = Setup::all_extended();
        let mut setup = setups[(i % setups.len() as u64) as usize].clone();
        // The quick tier ends with a directed block for the one clause the property names apart from
        // the edit classes - "the loss of a generated file defeats the cache, on both paths": every
        // setup x every file a run can lose (the five a plain run writes) x a project with and
        // without events, as the shortest history there is: current state, lose the file, run.
        let quick_tail: Option<u64> = if tier == Tier::Quick && i >= 900 { Some(i - 900) } else { None };
        if let Some(j) = quick_tail {
            setup = setups[(j % setups.len() as u64) as usize].clone();
        }
        // thorough: two passes over all ordered pairs of change classes, once through the CLI
        // and once through the build-script path, both with the standalone configuration
        // file (the one format in which every configuration change class is expressible)
        let n_cl = (EDIT_CLASSES.len() + CONFIG_CHANGES.len() + DELETABLE.len() + TAMPERS.len()) as u64;
        let pair_pass: Option<u64> = if tier == Tier::Thorough && i < 2 * n_cl * n_cl { Some(i / (n_cl * n_cl)) } else { None };
        if let Some(pass) = pair_pass {
            setup = setups[if pass == 0 { 2 } else { 7 }].clone(); // Cli/App/Standalone, Build/App/Standalone
        }
        let mut gp = GenParams::swarm(&mut r.split("params"));
        gp.n_files = gp.n_files.min(4);
        gp.n_types = gp.n_types.max(2);
        gp.n_events = gp.n_events.max(1);
        // ... but a seventh of the histories start in a project that emits nothing at all
        // (no events.ts, an events hash over the empty list)
        if i % 7 == 2 && pair_pass.is_none() {
            gp.n_events = 0;
        }
        if let Some(j) = quick_tail {
            gp.n_events = if (j / 65) % 2 == 0 { 0 } else { gp.n_events.max(1) };
        }
        // second directed block (39 cases): the three validator edit classes x every setup, in zod
        // mode, in a small project that is certain to have validated fields to edit
        let validator_tail: Option<u64> = quick_tail.filter(|j| *j >= 130 && *j < 169).map(|j| j - 130);
        // third directed block (52 cases): the two edit classes that only permute what an item
        // declares (two fields of a struct, two variants of an enum) x every setup x both
        // generators; the declaration order is the order of the generated interface / schema /
        // union, so the edit is output-affecting although no name, type or attribute changes
        let reorder_tail: Option<u64> = quick_tail.filter(|j| *j >= 169 && *j < 221).map(|j| j - 169);
        // fourth directed block (48 cases): a naming-case setting of the standalone configuration
        // file moves between its default rule and a string that is no rename rule (both
        // directions, both settings, both generators, every setup with such a file)
        let case_tail: Option<u64> = quick_tail.filter(|j| *j >= 221).map(|j| j - 221);
        if let Some(u) = case_tail {
            let st: Vec<&Setup> = setups.iter().filter(|s| s.conf == ConfSrc::Standalone).collect();
            setup = st[((u / 8) % st.len() as u64) as usize].clone();
        }
        if validator_tail.is_some() || reorder_tail.is_some() || case_tail.is_some() {
            gp.n_types = 1;
            gp.n_cmds = 1;
            gp.n_files = 1;
        }
        if pair_pass.is_some() {
            // rich enough that most classes find an eligible item
            gp.n_types = gp.n_types.max(4);
            gp.n_cmds = gp.n_cmds.max(3);
            gp.n_events = gp.n_events.max(2);
            gp.channels = true;
            gp.n_files = gp.n_files.max(2);
        }
        gp.named_pct = 70;
        gp.validators = true;
        gp.serde_attrs = (i / 8) % 2 == 0;
        let mut model = gen_model(&mut r.split("model"), &gp);
        if let Some(v) = validator_tail {
            use crate::model::{Command, Field, Item, Param, StructDef, Ty};
            let form = format!("TailForm{}", v);
            let fields = vec![
                Field { name: "title".into(), ty: Ty::Prim("String".into()), public: true, rename: None, skip: false, validate: Some(if v % 2 == 0 { "length(max = 40)".into() } else { "length(min = 0, max = 40)".into() }) },
                Field { name: "count".into(), ty: Ty::Prim("i32".into()), public: true, rename: None, skip: false, validate: Some("range(min = 1, max = 9)".into()) },
            ];
            // the only serde type commands can reach: every validator edit lands here
            model.files[0].items.clear();
            model.files[0].items.push(Item::Struct(StructDef { name: form.clone(), fields, rename_all: None, serde: true, qualified_derive: false }));
            model.files[0].items.push(Item::Cmd(Command {
                name: format!("submit_tail_form_{}", v),
                params: vec![Param { name: "form".into(), ty: Ty::Named(form) }],
                chans: vec![],
                ret: None,
                is_async: false,
                short_attr: false,
                emits: vec![],
                is_command: true,
            }));
            model.files.truncate(1);
        }
        if let Some(u) = case_tail {
            use crate::model::{Command, Field, Item, Param, StructDef, Ty};
            let form = format!("CaseForm{}", u);
            let fld = |n: &str, ty: &str| Field { name: n.into(), ty: Ty::Prim(ty.into()), public: true, rename: None, skip: false, validate: None };
            let fields = vec![fld("user_name", "String"), fld("item_count", "i32"), fld("is_urgent", "bool")];
            model.files[0].items.clear();
            model.files[0].items.push(Item::Struct(StructDef { name: form.clone(), fields, rename_all: None, serde: true, qualified_derive: false }));
            model.files[0].items.push(Item::Cmd(Command {
                name: format!("save_case_form_{}", u),
                params: vec![Param { name: "case_form".into(), ty: Ty::Named(form) }, Param { name: "dry_run".into(), ty: Ty::Prim("bool".into()) }],
                chans: vec![],
                ret: None,
                is_async: false,
                short_attr: false,
                emits: vec![],
                is_command: true,
            }));
            model.files.truncate(1);
        }
        if let Some(t) = reorder_tail {
            use crate::model::{Command, EnumDef, Field, Item, Param, StructDef, Ty, Variant};
            let form = format!("OrderForm{}", t);
            let kind = format!("OrderKind{}", t);
            let fld = |n: &str, ty: &str| Field { name: n.into(), ty: Ty::Prim(ty.into()), public: true, rename: None, skip: false, validate: None };
            let fields = vec![fld("title", "String"), fld("amount", "i32"), fld("urgent", "bool"), fld("note", "String")];
            let variants = ["Pending", "Active", "Closed"].iter().map(|v| Variant { name: v.to_string(), rename: None, payload: None }).collect();
            model.files[0].items.clear();
            model.files[0].items.push(Item::Struct(StructDef { name: form.clone(), fields, rename_all: None, serde: true, qualified_derive: false }));
            model.files[0].items.push(Item::Enum(EnumDef { name: kind.clone(), variants, rename_all: None }));
            model.files[0].items.push(Item::Cmd(Command {
                name: format!("place_order_{}", t),
                params: vec![Param { name: "form".into(), ty: Ty::Named(form) }, Param { name: "kind".into(), ty: Ty::Named(kind) }],
                chans: vec![],
                ret: None,
                is_async: false,
                short_attr: false,
                emits: vec![],
                is_command: true,
            }));
            model.files.truncate(1);
        }
        // a quarter of the projects (half of those generated in zod mode) spell the lower bound of their length validators as `min = 0` or
        // leave it out (the generated names only produce min >= 1)
        if i % 4 == 0 {
            let mut zr = r.split("min-zero");
            for f in model.files.iter_mut() {
                for it in f.items.iter_mut() {
                    if let crate::model::Item::Struct(sd) = it {
                        for fd in sd.fields.iter_mut() {
                            if let Some(v) = &fd.validate {
                                if let Some(rest) = v.strip_prefix("length(min = ") {
                                    if let Some((_, tail)) = rest.split_once(", ") {
                                        fd.validate = Some(if zr.chance(1, 2) { format!("length(min = 0, {}", tail) } else { format!("length({}", tail) });
                                    }
                                }
                            }
                        }
                    }
                }
            }
        }
        // "any number of files": a tenth of the histories play in a project of 17..70 source files
        if (i / setups.len() as u64) % 10 == 6 {
            let mut wr = r.split("widen");
            let target = *wr.pick(&[17usize, 18, 33, 64, 65, 70]);
            crate::model::widen(&mut model, &mut wr, target);
        }
        let mut cfg = super::c14::gen_cfg(&mut r.split("cfg"), &setup);
        // the dependency report is the most sensitive output (paths, line numbers, raw Rust
        // types): a third of the histories have it switched on from the start
        // (i % 3 and i % 2, not blocks of i: the 13 consecutive cases in which one change class is
        // the last change must meet both generators and both settings of the visualisation)
        if i % 3 == 1 && !cfg.flag_visualize {
            cfg.visualize = true;
        }
        // stratify the mode: every class meets both generators
        cfg.mode = if i % 2 == 0 || validator_tail.is_some() { "zod".into() } else { "none".into() };
        if let Some(t) = reorder_tail {
            cfg.mode = if (t / 26) % 2 == 0 { "zod".into() } else { "none".into() };
        }
        if let Some(u) = case_tail {
            cfg.mode = if (u / 4) % 2 == 0 { "zod".into() } else { "none".into() };
            // direction: from the default rule (spelled out or left to the default) to an unknown string, or back
            let start = |default: &str, k: u64| -> Option<String> {
                match k % 4 {
                    0 => Some(default.to_string()),
                    1 => None,
                    2 => Some(UNKNOWN_CASES[((u / 16) % UNKNOWN_CASES.len() as u64) as usize].to_string()),
                    _ => Some(UNKNOWN_CASES[((u / 16 + 3) % UNKNOWN_CASES.len() as u64) as usize].to_string()),
                }
            };
            cfg.field_case = start("snake_case", u / 2);
            cfg.param_case = start("camelCase", u / 2);
        }
        let mut sr = r.split("steps");
        let init_state = if quick_tail.is_some() { "current".to_string() } else { ["current", "current", "never", "other_mode"][((i / 3) % 4) as usize].to_string() };
        // all change classes in one list; the *last* change before the final run is stratified
        let mut classes: Vec<(String, String)> = vec![];
        for e in EDIT_CLASSES {
            classes.push(("edit".into(), e.to_string()));
        }
        for c in CONFIG_CHANGES {
            classes.push(("config".into(), c.to_string()));
        }
        for d in DELETABLE {
            classes.push(("delete_output".into(), d.to_string()));
        }
        for t in TAMPERS {
            classes.push(("tamper_cache".into(), t.to_string()));
        }
        // thorough: the first |classes|^2 cases walk through EVERY ordered pair of change
        // classes (as far as the generated project has an eligible item for both)
        debug_assert_eq!(n_cl, classes.len() as u64);
        let pair: Option<(usize, usize)> = pair_pass.map(|_| {
            let j = i % (n_cl * n_cl);
            ((j / n_cl) as usize, (j % n_cl) as usize)
        });
        let n_changes = match (pair, sr.below(10)) {
            (Some(_), _) => 2,
            (None, 0..=4) => 1,
            (None, 5..=7) => 2,
            _ => 3,
        };
        let mut steps: Vec<Step> = vec![];
        let mut cur_model = model.clone();
        let mut cur_cfg = cfg.clone();
        let mut cur_setup = setup.clone();
        let stratum = (i / setups.len() as u64) as usize;
        // "there and back": a configuration change, an edit, a run, the configuration change
        // taken back, a run. Whatever the intermediate configuration left behind (or did not
        // refresh) must not be vouched for once the first configuration is in force again.
        let there_and_back = pair.is_none() && i % 9 == 4 && quick_tail.is_none();
        if there_and_back {
            let before_cfg = cur_cfg.clone();
            let before_setup = cur_setup.clone();
            let mut done = false;
            for _ in 0..20 {
                let class = *sr.pick(&["visualize", "visualize", "mode", "mapping_add", "include_private", "flag_visualize", "flag_mode", "project_path_spelling", "output_path"]);
                if let Some((c, o, d)) = gen_config_change(&mut sr, class, &cur_cfg, &cur_setup, &cur_model) {
                    cur_cfg = c.clone();
                    if let Some(o) = &o {
                        cur_setup.out = o.clone();
                    }
                    let mut ps = None;
                    if class == "project_path_spelling" {
                        cur_setup.proj_style = (cur_setup.proj_style + 1) % 4;
                        ps = Some(cur_setup.proj_style);
                    }
                    steps.push(Step { kind: "config".into(), label: class.to_string(), desc: d, model: None, cfg: Some(c), out: o, proc: None, entry: None, at: 0, mtime_mode: String::new(), proj_style: ps });
                    // an edit in between
                    for _ in 0..20 {
                        let ec = *sr.pick(EDIT_CLASSES);
                        if let Some((m, d)) = gen_edit(&mut sr, ec, &cur_model) {
                            cur_model = m.clone();
                            steps.push(Step { kind: "edit".into(), label: ec.to_string(), desc: d, model: Some(m), cfg: None, out: None, proc: None, entry: None, at: 0, mtime_mode: String::new(), proj_style: None });
                            break;
                        }
                    }
                    steps.push(Step { kind: "run".into(), label: "run".into(), desc: "non-forced run".into(), model: None, cfg: None, out: None, proc: Some(gen_proc(&mut sr)), entry: None, at: 0, mtime_mode: String::new(), proj_style: None });
                    // and back
                    steps.push(Step {
                        kind: "config".into(),
                        label: format!("revert:{}", class),
                        desc: format!("take `{}` back", class),
                        model: None,
                        cfg: Some(before_cfg.clone()),
                        out: if before_setup.out != cur_setup.out { Some(before_setup.out.clone()) } else { None },
                        proc: None,
                        entry: None,
                        at: 0,
                        mtime_mode: String::new(),
                        proj_style: if before_setup.proj_style != cur_setup.proj_style { Some(before_setup.proj_style) } else { None },
                    });
                    cur_cfg = before_cfg.clone();
                    cur_setup = before_setup.clone();
                    done = true;
                    break;
                }
            }
            let _ = done;
        }
        // the same with a source edit, the middle run going through the OTHER entry point where
        // the layout serves both: edit, run(B), edit taken back, run(A)
        let edit_there_and_back = pair.is_none() && i % 9 == 7 && quick_tail.is_none();
        if edit_there_and_back {
            let before_model = cur_model.clone();
            for _ in 0..20 {
                let ec = *sr.pick(EDIT_CLASSES);
                if let Some((m, d)) = gen_edit(&mut sr, ec, &cur_model) {
                    steps.push(Step { kind: "edit".into(), label: ec.to_string(), desc: d, model: Some(m), cfg: None, out: None, proc: None, entry: None, at: 0, mtime_mode: String::new(), proj_style: None });
                    let shared = matches!((setup.cwd, setup.conf), (Cwd::SrcTauri, ConfSrc::Tauri) | (Cwd::SrcTauri, ConfSrc::Standalone) | (Cwd::App, ConfSrc::Standalone))
                        && cur_cfg.file_mode.is_none()
                        && !cur_cfg.flag_visualize
                        && cur_cfg.file_out.is_none();
                    let other = if shared { Some(if setup.entry == Entry::Cli { Entry::Build } else { Entry::Cli }) } else { None };
                    // in a third of these histories the run in the middle is a call of the LIBRARY function
                    // generate_from_config by some other program (a watcher, a test): it regenerates the
                    // bindings for the edited sources and knows nothing of the record
                    let middle_kind = if (i / 9) % 3 == 0 { "library" } else { "run" };
                    steps.push(Step { kind: middle_kind.into(), label: middle_kind.into(), desc: if middle_kind == "run" { "non-forced run (other entry point where possible)".into() } else { "the library function regenerates the bindings".into() }, model: None, cfg: None, out: None, proc: Some(gen_proc(&mut sr)), entry: other, at: 0, mtime_mode: String::new(), proj_style: None });
                    steps.push(Step { kind: "edit".into(), label: format!("revert:{}", ec), desc: format!("take `{}` back", ec), model: Some(before_model.clone()), cfg: None, out: None, proc: None, entry: None, at: 0, mtime_mode: String::new(), proj_style: None });
                    break;
                }
            }
        }
        let n_changes = if there_and_back || edit_there_and_back { 0 } else if quick_tail.is_some() { 1 } else { n_changes };
        for k in 0..n_changes {
            let last = k + 1 == n_changes;
            // the last change walks through all classes; earlier ones are random
            let mut tries = 0;
            loop {
                let (kind, class) = if let (Some((a, b)), 0) = (pair, tries) {
                    classes[if last { b } else { a }].clone()
                } else if let (Some(v), true) = (validator_tail, tries < 8) {
                    ("edit".to_string(), ["validator_min_zero", "validator_message", "change_validator"][((v / setups.len() as u64) % 3) as usize].to_string())
                } else if let (Some(u), true) = (case_tail, tries < 8) {
                    ("config".to_string(), ["field_case_unknown", "param_case_unknown"][(u % 2) as usize].to_string())
                } else if let (Some(t), true) = (reorder_tail, tries < 8) {
                    ("edit".to_string(), crate::edits::REORDER_CLASSES[((t / setups.len() as u64) % 2) as usize].to_string())
                } else if let (Some(j), 0) = (quick_tail, tries) {
                    ("delete_output".to_string(), DELETABLE[((j / setups.len() as u64) % 5) as usize].to_string())
                } else if last && tries == 0 {
                    classes[stratum % classes.len()].clone()
                } else if !last && tries == 0 && n_changes == 2 {
                    // pairwise coverage: first of two changes walks through the classes at another stride
                    classes[(stratum / classes.len() + stratum) % classes.len()].clone()
                } else {
                    sr.pick(&classes).clone()
                };
                tries += 1;
                let step = match kind.as_str() {
                    "edit" => gen_edit(&mut sr, &class, &cur_model).map(|(m, d)| {
                        cur_model = m.clone();
                        Step { kind: kind.clone(), label: class.clone(), desc: d, model: Some(m), cfg: None, out: None, proc: None, entry: None, at: 0, mtime_mode: String::new(), proj_style: None }
                    }),
                    "config" => gen_config_change(&mut sr, &class, &cur_cfg, &cur_setup, &cur_model).map(|(c, o, d)| {
                        cur_cfg = c.clone();
                        if let Some(o) = &o {
                            cur_setup.out = o.clone();
                        }
                        if class == "project_path_spelling" {
                            cur_setup.proj_style = (cur_setup.proj_style + 1 + sr.below(3) as u8) % 4;
                            return Step { kind: kind.clone(), label: class.clone(), desc: d, model: None, cfg: Some(c), out: None, proc: None, entry: None, at: 0, mtime_mode: String::new(), proj_style: Some(cur_setup.proj_style) };
                        }
                        Step { kind: kind.clone(), label: class.clone(), desc: d, model: None, cfg: Some(c), out: o, proc: None, entry: None, at: 0, mtime_mode: String::new(), proj_style: None }
                    }),
                    _ => Some(Step { kind: kind.clone(), label: class.clone(), desc: format!("{} {}", kind, class), model: None, cfg: None, out: None, proc: None, entry: None, at: 0, mtime_mode: String::new(), proj_style: None }),
                };
                if let Some(s) = step {
                    steps.push(s);
                    break;
                }
                if tries > 30 {
                    break;
                }
            }
            // a run between changes, sometimes
            if !last && pair.is_none() && sr.chance(1, 2) {
                let entry = if both_entries_possible(&setup) && sr.chance(1, 2) { Some(if sr.chance(1, 2) { Entry::Cli } else { Entry::Build }) } else { None };
                steps.push(Step { kind: "run".into(), label: "run".into(), desc: "non-forced run".into(), model: None, cfg: None, out: None, proc: Some(gen_proc(&mut sr)), entry, at: 0, mtime_mode: String::new(), proj_style: None });
            }
        }
        let entry = if both_entries_possible(&setup) && sr.chance(1, 3) { Some(if setup.entry == Entry::Cli { Entry::Build } else { Entry::Cli }) } else { None };
        steps.push(Step { kind: "run".into(), label: "run".into(), desc: "non-forced run".into(), model: None, cfg: None, out: None, proc: Some(gen_proc(&mut sr)), entry, at: 0, mtime_mode: String::new(), proj_style: None });
        // and once more: a second run must not un-notice anything
        if sr.chance(1, 4) {
            steps.push(Step { kind: "run".into(), label: "run".into(), desc: "non-forced run".into(), model: None, cfg: None, out: None, proc: Some(gen_proc(&mut sr)), entry: None, at: 0, mtime_mode: String::new(), proj_style: None });
        }
        // In an eleventh of the histories every run is a call of the LIBRARY function
        // generate_from_config (and one more such call comes first): a non-forced run like the
        // others as far as the property goes - whatever it decides to skip, what it leaves must be
        // current. (It writes no dependency report: the bindings and the record are compared.)
        if i % 11 == 5 && pair.is_none() && quick_tail.is_none() {
            for st in steps.iter_mut() {
                if st.kind == "run" {
                    st.kind = "run_lib".into();
                    st.entry = None;
                }
            }
            let mut lr = r.split("library-first");
            steps.insert(0, Step { kind: "run_lib".into(), label: "run".into(), desc: "library call".into(), model: None, cfg: None, out: None, proc: Some(gen_proc(&mut lr)), entry: None, at: 0, mtime_mode: String::new(), proj_style: None });
        }
        let mut p_init = gen_proc(&mut r.split("init"));
        // one monotone simulated timeline for the whole history
        let mut tr = r.split("timeline");
        let mut t = T0;
        p_init.clock.start_s = t;
        p_init.clock.jumps.clear();
        for st in steps.iter_mut() {
            t += 1 + tr.below(120) as i64;
            st.at = t;
            if let Some(p) = &mut st.proc {
                p.clock.start_s = t;
                p.clock.jumps.clear();
            }
            if st.kind == "edit" {
                st.mtime_mode = match tr.below(10) {
                    0 => "preserved_old".into(),
                    1 => "same_as_cache".into(),
                    _ => "now".into(),
                };
            }
        }
        serde_json::to_value(Case { model, cfg, setup, init_state, p_init, steps }).unwrap()
    }

    fn exec(&self, env: &mut Env, case: &Value) -> CaseOut {
        let mut co = CaseOut::default();
        let c: Case = match serde_json::from_value(case.clone()) {
            Ok(c) => c,
            Err(e) => {
                co.harness_error = Some(format!("bad case: {}", e));
                return co;
            }
        };
        let mut setup = c.setup.clone();
        let mut cfg = c.cfg.clone();
        let mut model = c.model.clone();
        let w = scen::materialise(env, &model, &cfg, &setup);
        // every file of the project is older than anything the history does
        w.stamp_all(T0 - 1000);
        let mut last_run_at: i64 = c.p_init.clock.start_s;
        // ---- initial generated state ----------------------------------------------------
        match c.init_state.as_str() {
            "current" => {
                let r = scen::run_tool(env, &w, &setup, &cfg, c.p_init.clone(), false, false);
                if !r.res.status.is_ok() {
                    co.discard = Some(format!("initial generation: {}", r.res.status.short()));
                    w.destroy();
                    return co;
                }
            }
            "other_mode" => {
                let mut other = cfg.clone();
                other.mode = if cfg.mode == "zod" { "none".into() } else { "zod".into() };
                w.write_config(&setup, &other);
                let r = scen::run_tool(env, &w, &setup, &other, c.p_init.clone(), false, false);
                if !r.res.status.is_ok() {
                    co.discard = Some(format!("initial generation: {}", r.res.status.short()));
                    w.destroy();
                    return co;
                }
                w.write_config(&setup, &cfg);
            }
            _ => {}
        }
        let mut ref_at_last_run: Option<Files> = None;
        if c.init_state == "current" {
            // so that "output-affecting" is measured from the very first change on
            ref_at_last_run = scen::reference2(env, &w, &setup, &cfg).ok();
        }
        let mut since_last_run: Vec<String> = vec![];
        if c.init_state == "other_mode" {
            since_last_run.push("config:mode".into());
        }
        let mut n_runs = 0;
        for step in &c.steps {
            match step.kind.as_str() {
                "edit" => {
                    if let Some(m) = &step.model {
                        model = m.clone();
                        let stamp = match step.mtime_mode.as_str() {
                            "preserved_old" => T0 - 500,
                            "same_as_cache" => last_run_at,
                            _ if step.at > 0 => step.at,
                            _ => last_run_at + 60,
                        };
                        w.write_sources_at(&model, Some(stamp));
                    }
                    since_last_run.push(format!("edit:{}", step.label));
                }
                "config" => {
                    if let Some(o) = &step.out {
                        setup.out = o.clone();
                    }
                    if let Some(ps) = step.proj_style {
                        setup.proj_style = ps;
                    }
                    if let Some(cc) = &step.cfg {
                        cfg = cc.clone();
                    }
                    w.write_config(&setup, &cfg);
                    since_last_run.push(format!("config:{}", step.label));
                }
                "delete_output" => {
                    let p = w.out_dir(&setup).join(&step.label);
                    if p.is_file() {
                        let _ = std::fs::remove_file(&p);
                        since_last_run.push(format!("delete:{}", step.label));
                    }
                }
                "tamper_cache" => {
                    let p = w.out_dir(&setup).join(".typecache");
                    if let Ok(orig) = std::fs::read(&p) {
                        let new: Vec<u8> = match step.label.as_str() {
                            "truncate" => orig[..orig.len() / 2].to_vec(),
                            "empty" => vec![],
                            "bitflip" => {
                                let mut b = orig.clone();
                                // flip inside a hash digit: still valid JSON, different record
                                if let Some(pos) = String::from_utf8_lossy(&b).find("combined_hash\": \"") {
                                    let k = pos + 18;
                                    if k < b.len() {
                                        b[k] = if b[k] == b'1' { b'2' } else { b'1' };
                                    }
                                }
                                b
                            }
                            "version" => String::from_utf8_lossy(&orig).replace("\"version\": 1", "\"version\": 2").into_bytes(),
                            _ => b"{\"version\": 1, \"files\": []}".to_vec(),
                        };
                        std::fs::write(&p, new).unwrap();
                        since_last_run.push(format!("tamper:{}", step.label));
                    }
                }
                "library" => {
                    let p = step.proc.clone().unwrap_or_else(|| ProcSpec::plain(7));
                    let ro = scen::run_library(env, &w, &setup, &cfg, p, false);
                    co.count("processes", 1);
                    co.count("library_runs_between_the_judged_runs", 1);
                    if ro.res.status.is_ok() {
                        since_last_run.push("other:library_run".into());
                    }
                }
                "run" | "run_lib" => {
                    let via_lib = step.kind == "run_lib";
                    let mut s = setup.clone();
                    if let Some(e) = step.entry {
                        s.entry = e;
                    }
                    let p = step.proc.clone().unwrap_or_else(|| ProcSpec::plain(7));
                    let cwd = w.cwd(&s);
                    let call = match s.entry {
                        Entry::Cli => Call::Cli(w.argv(&s, &cfg, false, false)),
                        Entry::Build => Call::Build,
                    };
                    if step.at > 0 {
                        last_run_at = step.at;
                    }
                    let ro = if via_lib { scen::run_library(env, &w, &s, &cfg, p, false) } else { env.run(&w, &cwd, p, call) };
                    n_runs += 1;
                    co.count("processes", 1);
                    co.count("non_forced_runs", 1);
                    if !ro.res.status.is_ok() {
                        // reporting failure is not a C08 matter, but it is unexpected on legal input
                        co.count("runs_reporting_failure", 1);
                        since_last_run.clear();
                        continue;
                    }
                    let reference = match scen::reference2(env, &w, &s, &cfg) {
                        Ok(f) => f,
                        Err(e) => {
                            co.discard = Some(e);
                            w.destroy();
                            return co;
                        }
                    };
                    co.count("processes", 2);
                    let hit = !ro.res.regenerated();
                    let files = scen::out_files(&w, &s);
                    // (the library writes no dependency report: what it is held to are the bindings)
                    let reference: Files = if via_lib { reference.into_iter().filter(|(n, _)| !n.starts_with("dependency-graph")).collect() } else { reference };
                    let files: Files = if via_lib { files.into_iter().filter(|(n, _)| !n.starts_with("dependency-graph")).collect() } else { files };
                    let bad = canon::compare_to_reference(&files, &reference, Cmp::Canon, true);
                    // was the output affected by what happened since the last run? (measured)
                    let affecting = match &ref_at_last_run {
                        Some(prev) => !canon::compare_to_reference(prev, &reference, Cmp::Canon, true).is_empty() || prev.len() != reference.len(),
                        None => true,
                    };
                    let changes = if since_last_run.is_empty() { "none".to_string() } else { since_last_run.join("+") };
                    let entry_s = format!("{:?}", s.entry);
                    co.reach("last_change_x_entry_x_mode_x_decision", format!("{}/{}/{}/{}", since_last_run.last().cloned().unwrap_or_else(|| "none".into()), entry_s, cfg.mode, if hit { "hit" } else { "miss" }));
                    if since_last_run.len() == 2 {
                        co.reach("ordered_pairs_of_change_classes", format!("{}>{}", since_last_run[0], since_last_run[1]));
                    }
                    co.count(if hit { "cache_hits" } else { "cache_misses" }, 1);
                    if hit && affecting && !since_last_run.is_empty() {
                        co.count("hit_after_output_affecting_change", 1);
                    }
                    if hit && !affecting && !since_last_run.is_empty() {
                        co.count("hit_after_output_preserving_change", 1);
                    }
                    if !bad.is_empty() {
                        // signature: the classes of change since the last run that the cache did not notice
                        let mut cls: Vec<String> = since_last_run.clone();
                        cls.sort();
                        cls.dedup();
                        let what: Vec<String> = bad.iter().map(|(f, p)| format!("{} {}", f, p)).collect();
                        let only_missing = bad.iter().all(|(_, p)| p == "missing");
                        co.violate(
                            format!("C08/{}/{}", if hit { "stale" } else { "regenerated-wrong" }, if cls.is_empty() { "none".into() } else { cls.join("+") }),
                            "after a non-forced run that reports success, every file of the forced reference generation exists with the same content",
                            format!(
                                "run #{} via {} ({}, mode {}) answered {} after [{}] but: {}{}",
                                n_runs,
                                entry_s,
                                s.label(),
                                cfg.mode,
                                if hit { "'up to date'" } else { "by regenerating" },
                                changes,
                                what.join(", "),
                                if only_missing { " (file lost)" } else { "" }
                            ),
                        );
                    }
                    if !since_last_run.is_empty() {
                        co.tags.push(format!("{}/{}/{}", changes, entry_s, cfg.mode));
                    }
                    ref_at_last_run = Some(reference);
                    since_last_run.clear();
                }
                _ => {}
            }
        }
        co.sample = Some(json!({
            "setup": c.setup.label(),
            "mode": c.cfg.mode,
            "init_state": c.init_state,
            "history": c.steps.iter().map(|s| if s.kind == "run" { format!("RUN{}", s.entry.map(|e| format!("({:?})", e)).unwrap_or_default()) } else { format!("{}:{} [{}]", s.kind, s.label, s.desc) }).collect::<Vec<_>>(),
        }));
        w.destroy();
        co
    }

    fn shrink(&self, case: &Value, _hint: Option<&Value>) -> Vec<Value> {
        let c: Case = match serde_json::from_value(case.clone()) {
            Ok(c) => c,
            Err(_) => return vec![],
        };
        let mut out = vec![];
        // drop steps (never the final run)
        if c.steps.len() > 1 {
            for k in (0..c.steps.len() - 1).rev() {
                let mut d = c.clone();
                d.steps.remove(k);
                out.push(d);
            }
            if c.steps.len() >= 2 && c.steps[c.steps.len() - 2].kind == "run" {
                let mut d = c.clone();
                d.steps.pop();
                out.push(d);
            }
        }
        if c.init_state != "current" {
            let mut d = c.clone();
            d.init_state = "current".into();
            out.push(d);
        }
        // drop an item by name from every model of the history at once
        let mut names: Vec<String> = c.model.all_names().into_iter().collect();
        names.reverse();
        for n in names {
            let mut d = c.clone();
            let strip = |m: &mut Model| {
                for f in &mut m.files {
                    f.items.retain(|i| i.name() != Some(&n));
                }
            };
            strip(&mut d.model);
            for s in &mut d.steps {
                if let Some(m) = &mut s.model {
                    strip(m);
                }
            }
            if d.model.commands().is_empty() {
                continue;
            }
            out.push(d);
        }
        // raw items
        {
            let mut d = c.clone();
            let strip = |m: &mut Model| {
                for f in &mut m.files {
                    f.items.retain(|i| !matches!(i, crate::model::Item::Raw(_)));
                }
            };
            strip(&mut d.model);
            for s in &mut d.steps {
                if let Some(m) = &mut s.model {
                    strip(m);
                }
            }
            out.push(d);
        }
        if !c.cfg.mappings.is_empty() || c.cfg.visualize {
            let mut d = c.clone();
            d.cfg.mappings.clear();
            d.cfg.visualize = false;
            out.push(d);
        }
        out.into_iter().map(|d| serde_json::to_value(d).unwrap()).collect()
    }

    fn rule(&self) -> String {
        "case = generated project + configuration + entry/cwd/config source + initial state (never generated | generated and current | generated in the other mode) + history of 1..3 changes drawn from 38 source-edit classes, 9 configuration changes, loss of one of 6 generated files, 5 kinds of cache damage, interleaved with non-forced runs (CLI and build-script path, mixed where the layout allows) and ending in one; the last change before the final run walks through all 58 classes (stratified), the first of two walks at another stride (pairwise coverage is measured in reach.ordered_pairs_of_change_classes, not enumerated). After every successful non-forced run the reference (forced generation into an empty directory, under two hash seeds) is computed and compared. Whether a change is output-affecting is measured (reference before != after), never taken from the label. distinct_nontrivial = distinct (classes since the last run, entry, mode) with at least one change.".into()
    }
    fn assumptions(&self) -> Vec<String> {
        vec![
            "comparison is on declaration multisets (canon), so that C13's order is not re-judged here; dependency-graph files are compared order-insensitively".into(),
            "tampering with the *content* of a generated file is not in the quantifier (only its loss is); over-invalidation is not a C08 matter".into(),
            "length<=3 histories are sampled with stratification, not enumerated".into(),
        ]
    }
}
