pub mod c14;
pub mod c13;
pub mod c20;
pub mod c09;
pub mod c16;
pub mod c17;
pub mod c08;
