//! C16 — only the tool's own files in the output directory are ever written
//! or removed.  Oracle 1 is a monitor over every mutating libc call of the
//! run; oracle 2 a before/after content comparison of the whole world.

use crate::harness::{CaseOut, Check, Env, Tier};
use crate::interpose::{Op, ProcSpec};
use crate::model::{gen_model, GenParams, Item, Model};
use crate::process::Call;
use crate::rng::Rng;
use crate::scen::gen_proc;
use crate::world::{diff, Cfg, Change, ConfSrc, Cwd, Entry, Node, OutStyle, Setup, World};
use serde::{Deserialize, Serialize};
use serde_json::{json, Value};
use std::collections::BTreeSet;

pub struct C16;

#[derive(Clone, Debug, Serialize, Deserialize)]
struct Foreign {
    /// path relative to the output directory
    rel: String,
    /// None = directory
    content: Option<String>,
    class: String,
}

#[derive(Clone, Debug, Serialize, Deserialize)]
struct RunOp {
    /// "generate" | "build" | "init" | "init_custom"
    kind: String,
    proc: ProcSpec,
    force: bool,
    /// which model the sources hold for this run: 0 = original, 1 = no events, 2 = no commands
    model_variant: u8,
}

#[derive(Clone, Debug, Serialize, Deserialize)]
struct Case {
    model: Model,
    cfg: Cfg,
    setup: Setup,
    /// output directory exists before the first run
    out_exists: bool,
    /// Some(target relative to the world root): the configured output path is a symlink to it
    symlink_target: Option<String>,
    foreign: Vec<Foreign>,
    runs: Vec<RunOp>,
    placement: String,
}

const NEAR_MISS: &[&str] = &[
    "types.ts.bak",
    "mytypes.ts",
    "index.tsx",
    "commands.ts~",
    "types.js",
    ".typecache.old",
    "generated",
    ".write_test",
    "dependency-graph.png",
    "Types.ts",
    "events.ts.orig",
    "index.ts.tmp",
    "types.tmp",
    ".typecache.tmp",
    "README.md",
    ".gitignore",
    "schema.ts",
    "typesXts",
    "types.d.tsx",
];
const RESERVED_SAMPLES: &[&str] = &[
    "types.ts",
    "commands.ts",
    "events.ts",
    "index.ts",
    "schemas.ts",
    "models.d.ts",
    "bindings.ts",
    ".typecache",
    "dependency-graph.txt",
    "generated_helpers.ts",
    "api_generated.ts",
];

/// class of a file name for signatures: the name with the reserved stems
/// abstracted, so that `index.test.ts` and `types.test.ts` are one finding
pub fn name_class(name: &str) -> String {
    if name == ".write_test" {
        return name.to_string();
    }
    let mut n = name.to_string();
    for stem in ["dependency-graph", ".typecache", "typecache", "types", "commands", "events", "index", "schemas", "models", "bindings"] {
        if let Some(pos) = n.to_lowercase().find(stem) {
            n.replace_range(pos..pos + stem.len(), "<stem>");
            return n;
        }
    }
    if n.to_lowercase().contains("generated") {
        return "<generated-like>".into();
    }
    "other".into()
}

pub fn is_reserved(name: &str) -> bool {
    const BASES: &[&str] = &["types", "commands", "events", "index", "schemas", "models", "bindings"];
    for b in BASES {
        if name == format!("{}.ts", b) || name == format!("{}.d.ts", b) {
            return true;
        }
    }
    name == ".typecache"
        || name == "dependency-graph.txt"
        || name == "dependency-graph.dot"
        || name.starts_with("generated_")
        || name.contains("_generated")
}

/// Near-misses are derived structurally from the reserved names: every stem x
/// every kind of small deviation (extra infix, suffix after the extension,
/// prefix, changed case, other extension, no extension, hidden, "generated"
/// without the underscore).  Whatever `is_reserved` accepts is classed as
/// reserved by the caller.
pub fn gen_near_miss(r: &mut Rng) -> String {
    const STEMS: &[&str] = &["types", "commands", "events", "index", "schemas", "models", "bindings", "dependency-graph", ".typecache", "generated"];
    let stem = *r.pick(STEMS);
    let cap = {
        let mut c = stem.chars();
        match c.next() {
            Some(f) => f.to_uppercase().collect::<String>() + c.as_str(),
            None => String::new(),
        }
    };
    match r.below(14) {
        0 => format!("{}.{}.ts", stem, r.pick(&["test", "spec", "mock", "stories", "old", "v2", "local"])),
        1 => format!("{}.ts.{}", stem, r.pick(&["bak", "orig", "tmp", "swp", "rej", "map"])),
        2 => format!("{}.ts~", stem),
        3 => format!("{}{}{}.ts", r.pick(&["my", "old", "api", "app"]), r.pick(&["", "-", "."]), stem),
        4 => format!("{}{}.ts", stem, r.pick(&["s", "2", "-old", "Helper", ".v2", "-backup"])),
        5 => format!("{}.ts", cap),
        6 => format!("{}.TS", stem.to_uppercase()),
        7 => format!("{}.{}", stem, r.pick(&["tsx", "js", "mjs", "d.tsx", "d.mts", "tmp", "json", "d.ts.map", "bak", "old", "png", "md"])),
        8 => stem.to_string(),
        9 => format!(".{}.ts", stem.trim_start_matches('.')),
        10 => format!("{}.d.{}", stem, r.pick(&["tsx", "ts.bak", "js"])),
        11 => r.pick(&["generated.ts", "generatedX.ts", "regenerated.ts", "autogenerated.ts", "degenerated-notes.md", "x-generated.ts", "generated-helpers.ts", "Generated_api.ts"]).to_string(),
        12 => r.pick(&[".write_test", ".write_test.bak", "write_test", ".typecache.old", ".typecache.tmp", ".typecache~", "typecache", ".Typecache", ".typecache.lock"]).to_string(),
        _ => format!("{}.tmp", stem),
    }
}

const PLACEMENTS: &[(&str, &str)] = &[
    ("inside_frontend", "app/src/generated"),
    ("beside_project", "gen-out"),
    ("nested_deep", "app/src/a/b/c/d"),
    ("inside_src_tauri", "app/src-tauri/bindings"),
    ("outside_dir", "outside/bindings"),
    ("frontend_lib", "app/src/lib/api"),
];

fn variant(m: &Model, v: u8) -> Model {
    let mut m2 = m.clone();
    match v {
        1 => {
            for f in &mut m2.files {
                for it in &mut f.items {
                    if let Item::Cmd(c) = it {
                        c.emits.clear();
                    }
                }
            }
        }
        2 => {
            for f in &mut m2.files {
                for it in &mut f.items {
                    if let Item::Cmd(c) = it {
                        c.is_command = false;
                    }
                }
            }
        }
        _ => {}
    }
    m2
}

fn canon_dir(p: &std::path::Path) -> String {
    std::fs::canonicalize(p).map(|x| x.to_string_lossy().into_owned()).unwrap_or_else(|_| p.to_string_lossy().into_owned())
}

impl Check for C16 {
    fn id(&self) -> &'static str {
        "C16"
    }
    fn name(&self) -> &'static str {
        "confinement"
    }
    fn level(&self) -> &'static str {
        "exploration"
    }
    fn cases(&self, tier: Tier) -> u64 {
        match tier {
            Tier::Quick => 480,
            Tier::Thorough => 7200,
        }
    }
    fn gen(&self, seed: u64, i: u64, _tier: Tier) -> Value {
        let mut r = Rng::new(crate::harness::case_seed(seed, "C16", i));
        let setups = Setup::all_basic();
        let mut setup = setups[(i % setups.len() as u64) as usize].clone();
        let (pname, pdir) = PLACEMENTS[((i / setups.len() as u64) % PLACEMENTS.len() as u64) as usize];
        setup.out = pdir.to_string();
        setup.out_style = *r.pick(&[OutStyle::Plain, OutStyle::Plain, OutStyle::TrailingSlash, OutStyle::DotDot, OutStyle::Absolute, OutStyle::NoDotSlash]);
        let mut gp = GenParams::swarm(&mut r.split("params"));
        gp.n_files = gp.n_files.min(4);
        gp.n_events = gp.n_events.max(1);
        let model = gen_model(&mut r.split("model"), &gp);
        let mut cfg = super::c14::gen_cfg(&mut r.split("cfg"), &setup);
        let mut fr = r.split("foreign");
        if setup.entry == Entry::Cli && setup.conf != ConfSrc::Flags && fr.chance(1, 3) {
            // the file names another directory; the command line's -o must win
            cfg.file_out = Some("app/src/named-in-config-file".into());
        }
        setup.proj_style = *fr.pick(&[0u8, 0, 0, 1, 2, 3]);
        let out_exists = fr.chance(4, 5);
        let symlink_target = if out_exists && fr.chance(1, 7) { Some(format!("real-out-{}", fr.range(1, 9))) } else { None };
        let mut foreign = vec![];
        if out_exists {
            let n = fr.range(0, 10);
            let mut used = BTreeSet::new();
            for _ in 0..n {
                let (name, class) = match fr.below(10) {
                    0 => (fr.pick(NEAR_MISS).to_string(), "near_miss"),
                    1..=3 => {
                        let n = gen_near_miss(&mut fr);
                        let cl = if is_reserved(&n) { "reserved" } else { "near_miss" };
                        (n, cl)
                    }
                    4 | 5 => (fr.pick(RESERVED_SAMPLES).to_string(), "reserved"),
                    6 => (format!("legacy/{}", fr.pick(RESERVED_SAMPLES)), "nested_reserved"),
                    7 => (format!("sub{}/note.txt", fr.range(1, 3)), "nested"),
                    _ => (format!("{}.{}", fr.pick(crate::model::WORDS), fr.pick(&["ts", "txt", "json", "md", "d.ts"])), "random"),
                };
                if !used.insert(name.clone()) {
                    continue;
                }
                let is_dir = class == "near_miss" && fr.chance(1, 10);
                foreign.push(Foreign {
                    rel: name.clone(),
                    content: if is_dir { None } else { Some(format!("// foreign file {} #{}\n", name, fr.range(1, 9999))) },
                    class: class.to_string(),
                });
            }
        }
        let mut pr = r.split("runs");
        let n_runs = pr.range(1, 4);
        let mut runs = vec![];
        for k in 0..n_runs {
            let kind = match setup.entry {
                Entry::Build => "build",
                Entry::Cli => match pr.below(7) {
                    0 if setup.conf != ConfSrc::Standalone => "init",
                    1 if setup.conf != ConfSrc::Standalone => "init_custom",
                    // bare `init`: every path defaulted (./src-tauri, ./src/generated, tauri.conf.json)
                    2 if setup.conf != ConfSrc::Standalone && setup.cwd == Cwd::App => "init_default",
                    // `init -o ./tauri.conf.json` in a directory that has its own tauri.conf.json
                    // (only as the last run: afterwards two config files compete)
                    3 if setup.conf != ConfSrc::Standalone && setup.cwd == Cwd::App && k + 1 == n_runs => "init_here",
                    _ => "generate",
                },
            };
            let model_variant = if k == 0 { 0 } else { *pr.pick(&[0u8, 0, 1, 2]) };
            runs.push(RunOp { kind: kind.to_string(), proc: gen_proc(&mut pr), force: pr.chance(1, 4), model_variant });
        }
        serde_json::to_value(Case { model, cfg, setup, out_exists, symlink_target, foreign, runs, placement: pname.to_string() }).unwrap()
    }

    fn exec(&self, env: &mut Env, case: &Value) -> CaseOut {
        let mut co = CaseOut::default();
        let c: Case = match serde_json::from_value(case.clone()) {
            Ok(c) => c,
            Err(e) => {
                co.harness_error = Some(format!("bad case: {}", e));
                return co;
            }
        };
        let w: World = env.world();
        w.write_sources(&c.model);
        w.write_config(&c.setup, &c.cfg);
        // decoys inside the project that must never change
        w.write_extra("target/debug/decoy.rs", "#[tauri::command]\nfn decoy() {}\n");
        w.write_extra("notes.txt", "project notes\n");
        let out = w.out_dir(&c.setup);
        if c.out_exists {
            if let Some(t) = &c.symlink_target {
                let real = w.root.join(t);
                std::fs::create_dir_all(&real).unwrap();
                std::fs::create_dir_all(out.parent().unwrap()).unwrap();
                std::os::unix::fs::symlink(&real, &out).unwrap();
            } else {
                std::fs::create_dir_all(&out).unwrap();
            }
            for f in &c.foreign {
                let p = out.join(&f.rel);
                std::fs::create_dir_all(p.parent().unwrap()).unwrap();
                match &f.content {
                    Some(t) => std::fs::write(&p, t).unwrap(),
                    None => std::fs::create_dir_all(&p).unwrap(),
                }
            }
        }
        let root = w.root.to_string_lossy().into_owned();
        let mut cur_variant = 0u8;
        for (k, run) in c.runs.iter().enumerate() {
            if run.model_variant != cur_variant {
                w.write_sources(&variant(&c.model, run.model_variant));
                cur_variant = run.model_variant;
            }
            let cwd = w.cwd(&c.setup);
            // the configuration file `init` is pointed at
            let mut init_target: Option<String> = None;
            let call = match run.kind.as_str() {
                "build" => Call::Build,
                "init_default" => {
                    init_target = Some(format!("{}/tauri.conf.json", canon_dir(&w.src_tauri())));
                    Call::Cli(vec!["cargo".into(), "tauri-typegen".into(), "init".into()])
                }
                "init_here" => {
                    // the user keeps a tauri.conf.json next to package.json and points init at it
                    std::fs::write(cwd.join("tauri.conf.json"), "{ \"productName\": \"here\", \"plugins\": {} }\n").unwrap();
                    init_target = Some(format!("{}/tauri.conf.json", canon_dir(&cwd)));
                    let mut a: Vec<String> = vec!["cargo".into(), "tauri-typegen".into(), "init".into()];
                    a.extend(["-p".into(), w.project_arg(&c.setup), "-g".into(), w.output_arg(&c.setup), "-o".into(), "./tauri.conf.json".into()]);
                    Call::Cli(a)
                }
                "init" | "init_custom" => {
                    let mut a: Vec<String> = vec!["cargo".into(), "tauri-typegen".into(), "init".into()];
                    a.push("-p".into());
                    a.push(w.project_arg(&c.setup));
                    a.push("-g".into());
                    a.push(w.output_arg(&c.setup));
                    a.push("-v".into());
                    a.push(c.cfg.mode.clone());
                    if run.kind == "init_custom" {
                        a.push("-o".into());
                        a.push("./typegen.custom.json".into());
                        a.push("--force".into());
                        init_target = Some(format!("{}/typegen.custom.json", canon_dir(&cwd)));
                    } else {
                        init_target = Some(format!("{}/tauri.conf.json", canon_dir(&w.src_tauri())));
                    }
                    Call::Cli(a)
                }
                _ => Call::Cli(w.argv(&c.setup, &c.cfg, run.force, false)),
            };
            // The *configured* output directory of this run, read the way the tool reads it:
            // an earlier `init` may have re-pointed plugins.typegen.outputPath.
            let out_this_run: std::path::PathBuf = match run.kind.as_str() {
                "init_default" => w.root.join("app/src/generated"),
                "init" | "init_custom" | "init_here" => out.clone(),
                // -o on the command line beats the directory the file names
                _ if c.cfg.file_out.is_some() && c.setup.entry == Entry::Cli => out.clone(),
                _ if c.setup.conf == ConfSrc::Tauri => {
                    let conf_path = w.src_tauri().join("tauri.conf.json");
                    let v: Option<Value> = std::fs::read_to_string(&conf_path).ok().and_then(|t| serde_json::from_str(&t).ok());
                    let p = v
                        .as_ref()
                        .and_then(|v| v["plugins"]["typegen"]["outputPath"].as_str())
                        .unwrap_or("./src/generated")
                        .to_string();
                    if p.starts_with('/') {
                        std::path::PathBuf::from(p)
                    } else {
                        lexical(&cwd.join(p))
                    }
                }
                _ => out.clone(),
            };
            let ro = env.run(&w, &cwd, run.proc.clone(), call);
            co.count("processes", 1);
            co.count("runs_monitored", 1);
            let out_real = canon_dir(&out_this_run);
            let before_abs = |p: &str| -> Option<&Node> { p.strip_prefix(&format!("{}/", root)).and_then(|rel| ro.before.get(rel)) };
            let after_abs = |p: &str| -> Option<&Node> { p.strip_prefix(&format!("{}/", root)).and_then(|rel| ro.after.get(rel)) };
            let classify = |path: &str, op: Op| -> Option<(String, String)> {
                // returns Some((signature-kind, explanation)) when the path is off limits
                if path == out_real || out_real.starts_with(&format!("{}/", path)) {
                    return if op == Op::Mkdir { None } else { Some(("outside".into(), format!("{} on an ancestor of the output directory", op.name()))) };
                }
                if let Some(t) = &init_target {
                    if path == t {
                        return None;
                    }
                }
                match path.strip_prefix(&format!("{}/", out_real)) {
                    None => Some(("outside".into(), format!("{} outside the output directory", op.name()))),
                    Some(rel) if rel.contains('/') => Some(("nested".into(), format!("{} below a sub-directory of the output directory", op.name()))),
                    Some(name) => {
                        if is_reserved(name) {
                            None
                        } else if before_abs(path).is_none() && after_abs(path).is_none() {
                            None // transient probe: created and removed within the run
                        } else if before_abs(path).is_some() {
                            Some(("foreign-touched".into(), format!("{} on a pre-existing file that does not bear a reserved name", op.name())))
                        } else {
                            Some(("foreign-created".into(), format!("{} creates a file that does not bear a reserved name", op.name())))
                        }
                    }
                }
            };
            // ---- oracle 1: monitor over the syscall trace -------------------------
            for e in &ro.res.trace {
                if !e.op.is_mut() || e.frozen || e.ret < 0 || matches!(e.op, Op::Close | Op::Write | Op::Fsync) {
                    continue;
                }
                co.count("mutating_calls_monitored", 1);
                let mut targets = vec![(e.path.clone(), e.op)];
                if e.op == Op::Rename || e.op == Op::Link {
                    targets.push((e.path2.clone(), e.op));
                }
                for (p, op) in targets {
                    if let Some((kind, why)) = classify(&p, op) {
                        let name = p.rsplit('/').next().unwrap_or("").to_string();
                        let nclass = name_class(&name);
                        co.violate(
                            format!("C16/{}/{}/{}", kind, nclass, run.kind),
                            "monitor: every mutating call targets the output directory and, there, only reserved names (or its own transient probe)",
                            format!("run {} ({}, {}): {}: {}", k, run.kind, c.setup.label(), why, p.strip_prefix(&root).unwrap_or(&p)),
                        );
                    }
                }
                if e.op == Op::Unlink && e.ret >= 0 && before_abs(&e.path).is_some() && e.path.starts_with(&format!("{}/", out_real)) {
                    co.count("files_deleted_by_cleanup", 1);
                }
            }
            // ---- oracle 2: before/after content of the whole world ------------------
            let d = diff(&ro.before, &ro.after);
            for (rel, ch) in &d {
                let abs = canon_parent(&format!("{}/{}", root, rel));
                let op = match ch {
                    Change::Created => {
                        if matches!(ro.after.get(rel), Some(Node::Dir)) { Op::Mkdir } else { Op::OpenW }
                    }
                    Change::Modified => Op::OpenW,
                    Change::Deleted => Op::Unlink,
                };
                if let Some((kind, _)) = classify(&abs, op) {
                    let name = abs.rsplit('/').next().unwrap_or("").to_string();
                    let nclass = name_class(&name);
                    co.violate(
                        format!("C16/{}/{}/{}", kind, nclass, run.kind),
                        "snapshot: everything but reserved names directly inside the output directory is byte-identical after the run",
                        format!("run {} ({}, {}): {:?} {}", k, run.kind, c.setup.label(), ch, rel),
                    );
                }
            }
            co.reach("placement_x_entry_x_kind", format!("{}/{}/{}", c.placement, c.setup.label(), run.kind));

            if !ro.res.status.is_ok() {
                co.count("runs_that_reported_failure", 1);
            }
        }
        let classes: BTreeSet<&str> = c.foreign.iter().map(|f| f.class.as_str()).collect();
        if !c.foreign.is_empty() {
            co.tags.push(format!(
                "{}/{}/{:?}/{}",
                c.placement,
                c.setup.label(),
                classes,
                c.runs.iter().map(|r| &r.kind[..1]).collect::<String>()
            ));
        }
        for f in &c.foreign {
            co.reach("foreign_name_x_entry", format!("{}/{:?}", f.rel, c.setup.entry));
        }
        co.sample = Some(json!({
            "placement": c.placement,
            "output_arg": w.output_arg(&c.setup),
            "setup": c.setup.label(),
            "symlink": c.symlink_target,
            "foreign": c.foreign.iter().map(|f| f.rel.clone()).collect::<Vec<_>>(),
            "runs": c.runs.iter().map(|r| format!("{}{}{}", r.kind, if r.force { " --force" } else { "" }, match r.model_variant { 1 => " (events removed)", 2 => " (no commands)", _ => "" })).collect::<Vec<_>>(),
        }));
        w.destroy();
        co
    }

    fn shrink(&self, case: &Value, _hint: Option<&Value>) -> Vec<Value> {
        let c: Case = match serde_json::from_value(case.clone()) {
            Ok(c) => c,
            Err(_) => return vec![],
        };
        let mut out = vec![];
        if c.runs.len() > 1 {
            for k in (0..c.runs.len()).rev() {
                let mut d = c.clone();
                d.runs.remove(k);
                out.push(d);
            }
        }
        for k in (0..c.foreign.len()).rev() {
            let mut d = c.clone();
            d.foreign.remove(k);
            out.push(d);
        }
        if c.symlink_target.is_some() {
            let mut d = c.clone();
            d.symlink_target = None;
            out.push(d);
        }
        if c.setup.out_style != OutStyle::Plain {
            let mut d = c.clone();
            d.setup.out_style = OutStyle::Plain;
            out.push(d);
        }
        for m in crate::shrink::shrink_model(&c.model) {
            let mut d = c.clone();
            d.model = m;
            out.push(d);
        }
        for k in 0..c.runs.len() {
            if c.runs[k].model_variant != 0 || c.runs[k].force {
                let mut d = c.clone();
                d.runs[k].model_variant = 0;
                d.runs[k].force = false;
                out.push(d);
            }
        }
        if c.cfg.visualize || !c.cfg.mappings.is_empty() {
            let mut d = c.clone();
            d.cfg.visualize = false;
            d.cfg.mappings.clear();
            out.push(d);
        }
        out.into_iter().map(|d| serde_json::to_value(d).unwrap()).collect()
    }

    fn rule(&self) -> String {
        "case = generated project + output directory placement (6 placements x 6 spellings: plain, trailing slash, ./x/../x, absolute, no leading ./; optionally behind a symlink; existing or not) pre-populated with 0..10 foreign files and sub-directories (near-misses of the reserved names, reserved names, nested reserved names, random names) + a history of 1..4 runs over CLI generate / init / init with a custom file / build-script path, including runs after all events or all commands were removed. Every mutating libc call is judged by the monitor and the whole world is compared before/after each run. distinct_nontrivial = distinct (placement, entry/cwd/config source, set of foreign-name classes, run-kind sequence) with at least one foreign file.".into()
    }
    fn assumptions(&self) -> Vec<String> {
        vec![
            "the transient write probe (created and removed within one run, inside the output directory) is judged only by location; touching a pre-existing file of that name is judged".into(),
            "reserved names as listed in the property (types/commands/events/index/schemas/models/bindings .ts/.d.ts, .typecache, dependency-graph.txt/.dot, generated_*, *_generated*), directly inside the output directory only".into(),
            "paths are compared after resolving symlinks at the time of the call".into(),
        ]
    }
}

/// lexical normalisation of an absolute path (`.` and `..` removed)
fn lexical(p: &std::path::Path) -> std::path::PathBuf {
    let mut out = std::path::PathBuf::from("/");
    for c in p.components() {
        match c {
            std::path::Component::ParentDir => {
                out.pop();
            }
            std::path::Component::Normal(x) => out.push(x),
            _ => {}
        }
    }
    out
}

/// resolve symlinks in the parent directory (the entry itself may be gone)
fn canon_parent(p: &str) -> String {
    let path = std::path::Path::new(p);
    match (path.parent(), path.file_name()) {
        (Some(par), Some(name)) => {
            let mut cur = par.to_path_buf();
            let mut tail: Vec<std::ffi::OsString> = vec![name.to_os_string()];
            loop {
                if let Ok(c) = std::fs::canonicalize(&cur) {
                    let mut out = c;
                    for t in tail.iter().rev() {
                        out.push(t);
                    }
                    return out.to_string_lossy().into_owned();
                }
                match (cur.parent(), cur.file_name()) {
                    (Some(pp), Some(n)) => {
                        tail.push(n.to_os_string());
                        cur = pp.to_path_buf();
                    }
                    _ => return p.to_string(),
                }
            }
        }
        _ => p.to_string(),
    }
}

#[allow(dead_code)]
fn unused(_: Cwd) {}
