//! C14 — re-running with nothing changed rewrites nothing; --force always
//! regenerates; the flag prevails over the configuration file.

use crate::canon::{self, Cmp};
use crate::harness::{CaseOut, Check, Env, Tier};
use crate::interpose::{Op, ProcSpec};
use crate::model::{gen_model, GenParams, Model};
use crate::rng::Rng;
use crate::scen::{self, gen_proc};
use crate::world::{Cfg, ConfSrc, Entry, Setup};
use serde::{Deserialize, Serialize};
use serde_json::{json, Value};

pub struct C14;

#[derive(Clone, Debug, Serialize, Deserialize)]
struct Case {
    kind: String, // "idem" | "force"
    model: Model,
    /// an earlier state of the project that was generated first (its leftovers - an
    /// events.ts nobody needs any more, a record for other sources - are what the
    /// judged runs start from)
    #[serde(default)]
    prelude: Option<Model>,
    #[serde(default)]
    flags: Vec<String>,
    /// things other programs left in the output directory: (name, kind) with kind
    /// "file" | "dir" | "dangling_symlink"
    #[serde(default)]
    foreign: Vec<(String, String)>,
    /// idem histories: run k goes through the other entry point (one output directory
    /// shared by `cargo tauri-typegen generate` and the build script)
    #[serde(default)]
    other_entry: Vec<bool>,
    /// idem histories: what happens to the output directory just before run k:
    /// ("lose", name): a generated file is deleted (run k has to restore it, run k+1 must
    /// again find everything current); ("appear", name): another program drops a file there
    #[serde(default)]
    between: Vec<Option<(String, String)>>,
    /// idem histories: run k is a call of the library function generate_from_config by another
    /// program. It always regenerates (it consults no record) and is not judged itself; the runs
    /// after it are: the bindings it left are current and it has left a record that says so.
    #[serde(default)]
    via_library: Vec<bool>,
    cfg: Cfg,
    setup: Setup,
    /// idem: run 0 generates, the rest repeat. force: run 0 prepares, run 1 is judged
    procs: Vec<ProcSpec>,
    verbose: Vec<bool>,
    // force workload
    cache_state: String,
    force_flag: bool,
    force_cfg: Option<bool>,
}

pub fn gen_cfg(r: &mut Rng, setup: &Setup) -> Cfg {
    let mut c = Cfg::plain(if r.chance(1, 2) { "zod" } else { "none" });
    if setup.conf != ConfSrc::Flags {
        let nm = *r.pick(&[0usize, 0, 1, 2, 3]);
        let pool = [
            ("DateTime", "string"),
            ("PathBuf", "string"),
            ("Uuid", "string"),
            ("Decimal", "number"),
            ("Url", "string"),
        ];
        let mut idx: Vec<usize> = (0..pool.len()).collect();
        r.shuffle(&mut idx);
        for k in idx.into_iter().take(nm) {
            c.mappings.insert(pool[k].0.to_string(), pool[k].1.to_string());
        }
        if r.chance(1, 5) {
            c.include_private = Some(r.chance(1, 2));
        }
    }
    if r.chance(1, 6) {
        c.visualize = true;
    }
    // command-line flags overriding what the file says (flag > file > default)
    if setup.entry == Entry::Cli && setup.conf != ConfSrc::Flags {
        if r.chance(1, 6) {
            c.file_mode = Some(if c.mode == "zod" { "none".into() } else { "zod".into() });
        }
        if !c.visualize && r.chance(1, 10) {
            c.visualize = true;
            c.flag_visualize = true;
        }
    }
    if setup.conf == ConfSrc::Standalone {
        if r.chance(1, 4) {
            c.param_case = Some(r.pick(crate::model::RENAME_RULES).to_string());
        }
        if r.chance(1, 4) {
            c.field_case = Some(r.pick(crate::model::RENAME_RULES).to_string());
        }
    }
    // (drawn last, so that everything above is what it was before this existed)
    c.platform_confs = r.chance(1, 3);
    c
}

const CACHE_STATES: &[&str] = &["absent", "matching", "mismatching", "torn", "bitflip", "version", "garbage", "unreadable", "symlink_to_dir", "symlink_loop"];

impl Check for C14 {
    fn id(&self) -> &'static str {
        "C14"
    }
    fn name(&self) -> &'static str {
        "idempotence"
    }
    fn level(&self) -> &'static str {
        "exploration"
    }
    fn cases(&self, tier: Tier) -> u64 {
        match tier {
            Tier::Quick => 1200 + 39 + 26,
            Tier::Thorough => 24000,
        }
    }
    fn gen(&self, seed: u64, i: u64, tier: Tier) -> Value {
        let r = Rng::new(crate::harness::case_seed(seed, "C14", i));
        let setups = Setup::all_extended();
        let mut setup = setups[(i % setups.len() as u64) as usize].clone();
        {
            let mut sr = r.split("spelling");
            setup.proj_style = *sr.pick(&[0u8, 0, 0, 1, 2, 3]);
            setup.out_style = *sr.pick(&[crate::world::OutStyle::Plain, crate::world::OutStyle::Plain, crate::world::OutStyle::TrailingSlash, crate::world::OutStyle::DotDot, crate::world::OutStyle::Absolute, crate::world::OutStyle::NoDotSlash]);
        }
        let mut gp = GenParams::swarm(&mut r.split("params"));
        // directed block at the end of both tiers (quick: 39 worlds = every setup x 3, thorough:
        // the last 500): commands with SEVERAL Channel<T> parameters (generated commands have at
        // most one) - whatever the record keeps per command as a collection meets more than one element
        let multi_chan = match tier {
            Tier::Quick => (1200..1239).contains(&i),
            Tier::Thorough => i >= 23500,
        };
        // second directed block (quick: 26 histories, thorough: 500): before the first repeat run a
        // generated file is replaced by a symbolic link to a copy of itself kept next to the
        // output directory (bindings shared with another package). Nothing changed: still a hit.
        let link_tail = match tier {
            Tier::Quick => i >= 1239,
            Tier::Thorough => (23000..23500).contains(&i),
        };
        if multi_chan {
            gp.n_cmds = gp.n_cmds.clamp(1, 2);
        }
        // the quantifier names 1..6 source files: stratify
        gp.n_files = 1 + ((i / setups.len() as u64) % 6) as usize;
        let mut mr = r.split("model");
        let mut model = gen_model(&mut mr, &gp);
        let mut flags = vec![];
        super::c13::add_specials(&mut mr, &mut model, &mut flags, true);
        if multi_chan {
            let mut cr = r.split("channels");
            for _ in 0..(4 + cr.below(3)) {
                if let Some((m2, _)) = crate::edits::gen_edit(&mut cr, "add_channel", &model) {
                    model = m2;
                }
            }
            let most = model.commands().iter().map(|c| c.chans.len()).max().unwrap_or(0);
            flags.push(format!("channels={}", most));
        }
        // "for projects of any number of files": a ninth of the worlds have 17..70 of them
        if (i / setups.len() as u64) % 9 == 4 {
            let mut wr = r.split("widen");
            let target = *wr.pick(&[17usize, 18, 33, 64, 65, 70]);
            crate::model::widen(&mut model, &mut wr, target);
            flags.push(format!("files={}", target));
        }
        // a quarter of the worlds were something else before: more events, one more command
        let prelude = if (i / 8) % 4 == 1 {
            let before = model.clone();
            let mut stripped = false;
            for f in &mut model.files {
                for it in &mut f.items {
                    if let crate::model::Item::Cmd(c) = it {
                        if !c.emits.is_empty() {
                            c.emits.clear();
                            stripped = true;
                        }
                    }
                }
            }
            if !stripped {
                if let Some((m2, _)) = crate::edits::gen_edit(&mut mr, "remove_command", &model) {
                    model = m2;
                    stripped = true;
                }
            }
            if stripped {
                flags.push("prelude".into());
                Some(before)
            } else {
                None
            }
        } else {
            None
        };
        let mut fr = r.split("foreign");
        let mut foreign: Vec<(String, String)> = vec![];
        if i % 5 == 2 {
            for _ in 0..fr.range(1, 3) {
                let (n, k) = match fr.below(4) {
                    0 => (format!(".#{}", fr.pick(&["types.ts", "commands.ts", "index.ts"])), "dangling_symlink"), // an editor's lock link
                    1 => (format!("{}.md", fr.pick(crate::model::WORDS)), "file"),
                    2 => (format!("{}-assets", fr.pick(crate::model::WORDS)), "dir"),
                    _ => (crate::checks::c16::gen_near_miss(&mut fr), "file"),
                };
                if !crate::checks::c16::is_reserved(&n) && !foreign.iter().any(|f| f.0 == n) {
                    foreign.push((n, k.to_string()));
                }
            }
        }
        let mut cr = r.split("cfg");
        let cfg = gen_cfg(&mut cr, &setup);
        let force_kind = i % 3 == 2 && !link_tail;
        let mut pr = r.split("procs");
        let n = if force_kind { 3 } else { pr.range(3, 6) };
        let mut procs: Vec<ProcSpec> = (0..n).map(|_| gen_proc(&mut pr)).collect();
        let verbose: Vec<bool> = (0..n).map(|_| pr.chance(1, 5)).collect();
        // legal but unusual I/O in a seventh of the histories: reads that return fewer bytes than
        // asked for and calls interrupted by a signal (std retries both). Nothing has changed, so
        // nothing may be rewritten - whatever the record and the sources were read with.
        if i % 7 == 3 {
            let mut qr = r.split("masked-faults");
            for p in procs.iter_mut().skip(if force_kind { 1 } else { 0 }) {
                if qr.chance(2, 3) {
                    for _ in 0..qr.range(1, 4) {
                        let at = crate::interpose::FaultAt::Read(qr.below(60) as usize);
                        let kind = if qr.chance(1, 4) { crate::interpose::FaultKind::Eintr } else { crate::interpose::FaultKind::ShortRead { k: qr.range(1, 48) } };
                        p.faults.push(crate::interpose::FaultSpec { at, kind });
                    }
                }
            }
        }
        let shared_layout = matches!(
            (setup.cwd, setup.conf),
            (crate::world::Cwd::SrcTauri, ConfSrc::Tauri) | (crate::world::Cwd::SrcTauri, ConfSrc::Standalone) | (crate::world::Cwd::App, ConfSrc::Standalone)
        ) && cfg.file_mode.is_none()
            && !cfg.flag_visualize
            && cfg.file_out.is_none();
        let other_entry: Vec<bool> = (0..n).map(|k| k > 0 && !force_kind && shared_layout && (i / 11) % 3 == 0 && pr.chance(1, 2)).collect();
        let mut br = r.split("between");
        let between: Vec<Option<(String, String)>> = (0..n)
            .map(|k| {
                if link_tail {
                    if k == 1 {
                        Some(("link".to_string(), ["types.ts", "commands.ts", "index.ts"][(i % 3) as usize].to_string()))
                    } else {
                        None
                    }
                } else if k == 0 || force_kind || (i / 11) % 4 != 2 {
                    None
                } else if k + 1 < n && br.chance(1, 3) {
                    Some(("lose".to_string(), br.pick(&["types.ts", "commands.ts", "index.ts"]).to_string()))
                } else if br.chance(1, 3) {
                    Some(("appear".to_string(), br.pick(&["types.d.ts", "index.d.ts", "models.ts", "bindings.ts", "generated_client.ts", "notes.md", "commands.d.ts"]).to_string()))
                } else {
                    None
                }
            })
            .collect();
        // ... and, where nothing is lost or dropped between the runs, one repeat run that cannot read
        // one of the source files at all (EIO / EACCES): it may fail, it may not rewrite anything
        if i % 7 == 3 && !force_kind && between.iter().all(|b| b.is_none()) {
            let mut qr = r.split("source-read-error");
            let k = qr.range(1, n - 1);
            // ... or cannot list one of the directories it walks
            let at = if qr.chance(1, 3) {
                // (a directory of the PROJECT: not being able to list the output directory is a reason
                // to regenerate, like an unreadable record)
                crate::interpose::FaultAt::PathOp {
                    suffix: qr.pick(&["/src-tauri", "/src-tauri/src", "/src-tauri/src", "/commands", "/models", "/util", "/deep", "/events", "/bulk"]).to_string(),
                    op: Op::OpenDir,
                    nth: 0,
                }
            } else {
                crate::interpose::FaultAt::PathOp { suffix: ".rs".into(), op: if qr.chance(1, 2) { Op::OpenR } else { Op::Read }, nth: qr.below(4) as usize }
            };
            procs[k].faults.push(crate::interpose::FaultSpec { at, kind: crate::interpose::FaultKind::Err(if qr.chance(1, 2) { libc::EIO } else { libc::EACCES }) });
        }
        let via_library: Vec<bool> = {
            let mut lr = r.split("library");
            // (not where the dependency report is requested: the library writes no report and therefore
            // leaves no record either; the next run regenerates, rightly)
            (0..n).map(|k| k > 0 && k + 1 < n && !force_kind && !cfg.visualize && (i / 11) % 5 == 3 && between.iter().all(|b| b.is_none()) && lr.chance(1, 2)).collect()
        };
        let mut fr = r.split("force");
        // the force matrix is walked systematically: (cache state) x (force source) x (setup);
        // i = 3*fk + 2 visits every setup for every cell because 3 is coprime to the setup count
        let fk = i / 3;
        let cache_state = CACHE_STATES[(fk % CACHE_STATES.len() as u64) as usize].to_string();
        let _ = fr.below(5);
        let (force_flag, force_cfg) = match (fk / CACHE_STATES.len() as u64) % 5 {
            0 => (true, None),
            1 => (false, Some(true)),
            2 => (true, Some(true)),
            3 => (true, Some(false)),
            _ => (false, None),
        };
        let (force_flag, force_cfg) = if setup.entry == Entry::Build {
            (false, force_cfg.or(if force_flag { Some(true) } else { None }))
        } else if setup.conf == ConfSrc::Flags {
            (force_flag, None)
        } else {
            (force_flag, force_cfg)
        };
        serde_json::to_value(Case {
            kind: if force_kind { "force".into() } else { "idem".into() },
            model,
            prelude,
            flags,
            foreign,
            other_entry,
            between,
            via_library,
            cfg,
            setup,
            procs,
            verbose,
            cache_state,
            force_flag,
            force_cfg,
        })
        .unwrap()
    }

    fn exec(&self, env: &mut Env, case: &Value) -> CaseOut {
        let mut co = CaseOut::default();
        let c: Case = match serde_json::from_value(case.clone()) {
            Ok(c) => c,
            Err(e) => {
                co.harness_error = Some(format!("bad case: {}", e));
                return co;
            }
        };
        let w = match &c.prelude {
            Some(p) => {
                let w = scen::materialise(env, p, &c.cfg, &c.setup);
                let r = scen::run_tool(env, &w, &c.setup, &c.cfg, ProcSpec::plain(0x9e1d), false, false);
                if !r.res.status.is_ok() {
                    co.discard = Some(format!("prelude generation: {}", r.res.status.short()));
                    w.destroy();
                    return co;
                }
                co.count("processes", 1);
                co.count("worlds_with_an_earlier_generated_state", 1);
                w.write_sources(&c.model);
                w
            }
            None => scen::materialise(env, &c.model, &c.cfg, &c.setup),
        };
        if !c.foreign.is_empty() {
            let out = w.out_dir(&c.setup);
            let _ = std::fs::create_dir_all(&out);
            for (n, k) in &c.foreign {
                let p = out.join(n);
                match k.as_str() {
                    "dir" => {
                        let _ = std::fs::create_dir_all(&p);
                    }
                    "dangling_symlink" => {
                        let _ = std::os::unix::fs::symlink("someone@host.4242", &p);
                    }
                    _ => {
                        let _ = std::fs::write(&p, format!("foreign {}\n", n));
                    }
                }
            }
            co.count("worlds_with_foreign_entries_in_the_output_directory", 1);
        }
        let n_files = c.model.files.len();
        let n_cmd_files = c
            .model
            .files
            .iter()
            .filter(|f| f.items.iter().any(|i| matches!(i, crate::model::Item::Cmd(c) if c.is_command)))
            .count();
        // first run: generates
        let first = scen::run_tool(env, &w, &c.setup, &c.cfg, c.procs[0].clone(), false, c.verbose[0]);
        if c.prelude.is_some() && first.res.status.is_ok() && !first.res.regenerated() {
            // the switch from the earlier project state was not noticed by the cache: C08's
            // business (stale bindings), not an idempotence question - counted, not judged here
            co.count("earlier_state_not_noticed_by_the_cache(C08, not judged here)", 1);
            w.destroy();
            return co;
        }
        if !first.res.status.is_ok() || !first.res.regenerated() {
            co.discard = Some(format!("first run: {} regenerated={}", first.res.status.short(), first.res.regenerated()));
            return co;
        }
        let out_root = w.out_dir(&c.setup).to_string_lossy().into_owned();
        co.count("processes", 1);
        if c.kind == "idem" {
            let mut hits = 0;
            for k in 1..c.procs.len() {
                let mut restoring = false;
                let mut linked: Option<String> = None;
                if let Some(Some((what, name))) = c.between.get(k) {
                    let p = w.out_dir(&c.setup).join(name);
                    if what == "link" {
                        let out = w.out_dir(&c.setup);
                        let target = out.parent().map(|d| d.join(format!(".shared-{}", name)));
                        if let (true, Some(t)) = (p.is_file(), target) {
                            if std::fs::copy(&p, &t).is_ok() && std::fs::remove_file(&p).is_ok() && std::os::unix::fs::symlink(&t, &p).is_ok() {
                                linked = Some(name.clone());
                                co.count("repeat_runs_over_a_generated_file_replaced_by_a_link_to_it", 1);
                            }
                        }
                    } else if what == "lose" {
                        if p.is_file() {
                            let _ = std::fs::remove_file(&p);
                            restoring = true;
                            co.count("runs_that_had_to_restore_a_lost_file", 1);
                        }
                    } else if !p.exists() {
                        let _ = std::fs::write(&p, format!("// dropped here by another program: {}\n", name));
                        co.count("files_appearing_between_runs", 1);
                    }
                }
                if c.via_library.get(k).copied().unwrap_or(false) {
                    let r = scen::run_library(env, &w, &c.setup, &c.cfg, c.procs[k].clone(), false);
                    co.count("processes", 1);
                    co.count("library_runs_between_the_judged_runs", 1);
                    if !r.res.status.is_ok() && !r.res.fired.iter().any(|(kind, _)| kind == "err") {
                        co.violate("C14/repeat-run-fails".into(), "A: a repeated run with nothing changed succeeds", format!("library run {} returned {}", k, r.res.status.short()));
                        break;
                    }
                    continue;
                }
                let before_files = scen::out_files(&w, &c.setup);
                let mut setup_k = c.setup.clone();
                if c.other_entry.get(k).copied().unwrap_or(false) {
                    setup_k.entry = if setup_k.entry == Entry::Cli { Entry::Build } else { Entry::Cli };
                    co.count("repeat_runs_through_the_other_entry_point", 1);
                }
                let r = scen::run_tool(env, &w, &setup_k, &c.cfg, c.procs[k].clone(), false, c.verbose[k] && setup_k.entry == Entry::Cli);
                co.count("processes", 1);
                co.count("repeat_runs", 1);
                let after_files = scen::out_files(&w, &c.setup);
                // a run that met an injected I/O *error* (not a short read or an interrupted call,
                // which std hides) may fail; what it may not do is rewrite anything
                let met_error = r.res.fired.iter().any(|(kind, _)| kind == "err");
                if met_error {
                    co.count("repeat_runs_that_met_a_read_error", 1);
                }
                if !r.res.status.is_ok() && !met_error {
                    co.violate(
                        "C14/repeat-run-fails".into(),
                        "A: a repeated run with nothing changed succeeds",
                        format!("run {} returned {}", k, r.res.status.short()),
                    );
                    break;
                }
                // trace oracle: no pre-existing file of the output directory is
                // opened for writing, truncated, renamed or unlinked
                let touched: Vec<String> = r
                    .res
                    .trace
                    .iter()
                    .filter(|e| {
                        let pre = |p: &str| p.starts_with(&format!("{}/", out_root)) && before_files.contains_key(p.rsplit('/').next().unwrap_or(""));
                        !e.frozen
                            && e.ret >= 0 // a refused call (e.g. an exclusive create that finds the name taken) touches nothing
                            && matches!(e.op, Op::OpenW | Op::Unlink | Op::Rename | Op::Link | Op::Truncate | Op::Utimens | Op::Chmod)
                            && ((e.existed && pre(&e.path)) || (e.op == Op::Rename && pre(&e.path2)))
                    })
                    .map(|e| format!("{}:{}", e.op.name(), e.path.rsplit('/').next().unwrap_or("")))
                    .collect();
                let changed: Vec<&String> = before_files
                    .iter()
                    .filter(|(n, b)| after_files.get(*n) != Some(b))
                    .map(|(n, _)| n)
                    .collect();
                if let Some(name) = &linked {
                    // the linked file is no regular file of the snapshot: look for it in the trace
                    let wrote: Vec<String> = r
                        .res
                        .trace
                        .iter()
                        .filter(|e| !e.frozen && e.ret >= 0 && matches!(e.op, Op::OpenW | Op::Unlink | Op::Rename | Op::Truncate) && e.path.starts_with(&format!("{}/", out_root)) && e.path.rsplit('/').next() == Some(name.as_str()))
                        .map(|e| format!("{}:{}", e.op.name(), name))
                        .collect();
                    let still_link = std::fs::symlink_metadata(w.out_dir(&c.setup).join(name)).map(|m| m.file_type().is_symlink()).unwrap_or(false);
                    if !wrote.is_empty() || !still_link || !touched.is_empty() || !changed.is_empty() {
                        co.violate(
                            "C14/spurious-regen/linked-output".into(),
                            "A: re-running with unchanged sources and configuration leaves every output file untouched",
                            format!("run {} ({}): {} had been replaced by a link to an identical file; the run touched {:?} {:?}, changed {:?}, still a link: {}", k, c.setup.label(), name, wrote, touched, changed, still_link),
                        );
                        break;
                    }
                }
                if restoring {
                    // this run is allowed (required) to write: the lost file must be back
                    if let Some(Some((_, name))) = c.between.get(k) {
                        if !after_files.contains_key(name) {
                            co.violate(
                                "C14/lost-file-not-restored".into(),
                                "A (history): a run over an output directory that lost a generated file brings it back",
                                format!("run {}: {} still missing ({})", k, name, c.setup.label()),
                            );
                            break;
                        }
                    }
                    continue;
                }
                if touched.is_empty() && changed.is_empty() {
                    hits += 1;
                    co.count("cache_hits_on_repeat", 1);
                } else {
                    co.count("cache_misses_on_repeat", 1);
                    // which sub-hash moved?
                    let sub = sub_hash_diff(before_files.get(".typecache"), after_files.get(".typecache"));
                    co.violate(
                        format!("C14/spurious-regen/{}", sub),
                        "A: re-running with unchanged sources and configuration leaves every output file untouched",
                        format!(
                            "run {} of {} ({} source files, {} with commands, {} mappings, {}): touched {:?}, bytes changed {:?}",
                            k,
                            c.procs.len() - 1,
                            n_files,
                            n_cmd_files,
                            c.cfg.mappings.len(),
                            c.setup.label(),
                            touched,
                            changed
                        ),
                    );
                    break;
                }
            }
            if hits > 0 && (n_cmd_files >= 2 || c.cfg.mappings.len() >= 2) {
                co.tags.push(format!("idem/{}f/{}m/{}", n_cmd_files, c.cfg.mappings.len(), c.setup.label()));
            }
            co.reach("files_x_entry", format!("{}/{}", n_files, c.setup.label()));
        } else {
            // ---- force workload -------------------------------------------------
            let cache_path = w.out_dir(&c.setup).join(".typecache");
            let orig = std::fs::read(&cache_path).unwrap_or_default();
            match c.cache_state.as_str() {
                "absent" => {
                    let _ = std::fs::remove_file(&cache_path);
                }
                "matching" => {}
                "mismatching" => {
                    let s = String::from_utf8_lossy(&orig).replace("\"combined_hash\": \"", "\"combined_hash\": \"0");
                    std::fs::write(&cache_path, s).unwrap();
                }
                "torn" => std::fs::write(&cache_path, &orig[..orig.len() / 2]).unwrap(),
                "bitflip" => {
                    let mut b = orig.clone();
                    if !b.is_empty() {
                        let k = b.len() / 3;
                        b[k] ^= 0x04;
                    }
                    std::fs::write(&cache_path, b).unwrap();
                }
                "version" => {
                    let s = String::from_utf8_lossy(&orig).replace("\"version\": 1", "\"version\": 2");
                    std::fs::write(&cache_path, s).unwrap();
                }
                // the record is there and right, but cannot be opened (permissions, a failing disk):
                // injected into the judged run below
                "unreadable" => {}
                "symlink_to_dir" => {
                    let _ = std::fs::remove_file(&cache_path);
                    std::os::unix::fs::symlink(".", &cache_path).unwrap();
                }
                "symlink_loop" => {
                    let _ = std::fs::remove_file(&cache_path);
                    std::os::unix::fs::symlink(".typecache", &cache_path).unwrap();
                }
                _ => std::fs::write(&cache_path, "{\"hello\": [1,2,3]}").unwrap(),
            }
            let mut cfg2 = c.cfg.clone();
            cfg2.force = c.force_cfg;
            w.write_config(&c.setup, &cfg2);
            let reference = match scen::reference(env, &w, &c.setup, &cfg2, 0x77) {
                Ok(f) => f,
                Err(e) => {
                    co.discard = Some(e);
                    return co;
                }
            };
            let forced = c.force_flag || c.force_cfg == Some(true);
            // Evidence that a forced run really regenerates, independent of HOW the tool writes
            // (a tool may legitimately skip rewriting a file whose content is already right): one
            // generated file is damaged behind the cache's back; honouring the cache would keep
            // the damage, regenerating removes it.
            let mut damaged: Option<String> = None;
            if forced {
                for cand in ["commands.ts", "types.ts", "index.ts"] {
                    let p = w.out_dir(&c.setup).join(cand);
                    if p.is_file() {
                        let mut t = std::fs::read(&p).unwrap_or_default();
                        t.extend_from_slice(b"\nexport const damagedBehindTheCachesBack = 1;\n");
                        std::fs::write(&p, t).unwrap();
                        damaged = Some(cand.to_string());
                        break;
                    }
                }
            }
            let before_files = scen::out_files(&w, &c.setup);
            let mut p1 = c.procs[1].clone();
            if c.cache_state == "unreadable" {
                p1.faults.push(crate::interpose::FaultSpec {
                    at: crate::interpose::FaultAt::PathOp { suffix: "/.typecache".into(), op: Op::OpenR, nth: 0 },
                    kind: crate::interpose::FaultKind::Err(libc::EACCES),
                });
            }
            let r = scen::run_tool(env, &w, &c.setup, &cfg2, p1, c.force_flag, c.verbose[1]);
            co.count("processes", 3);
            let after_files = scen::out_files(&w, &c.setup);
            let label = format!(
                "cache={} flag={} cfg={:?} {}",
                c.cache_state,
                c.force_flag,
                c.force_cfg,
                c.setup.label()
            );
            co.reach("force_matrix", label.clone());
            if !r.res.status.is_ok() {
                co.violate(
                    "C14/force-run-fails".into(),
                    "B: a forced run succeeds",
                    format!("{}: {}", label, r.res.status.short()),
                );
            } else if forced {
                co.count("forced_runs", 1);
                let written: Vec<String> = r.res.written_names();
                let not_rewritten: Vec<&String> = reference.keys().filter(|n| !written.contains(n)).collect();
                if not_rewritten.is_empty() {
                    co.count("forced_runs_that_rewrote_every_file", 1);
                }
                // the damaged file must be back to the reference content
                let still_damaged: Vec<&String> = damaged
                    .iter()
                    .filter(|d| after_files.get(*d).map(|b| String::from_utf8_lossy(b).contains("damagedBehindTheCachesBack")).unwrap_or(true))
                    .collect();
                let missing = still_damaged;
                if !missing.is_empty() {
                    let which = if c.force_flag && c.force_cfg == Some(false) {
                        "flag-vs-config"
                    } else if c.force_flag {
                        "flag"
                    } else {
                        "config"
                    };
                    co.violate(
                        format!("C14/force-ignored/{}", which),
                        "B: with a force source on, the bindings are regenerated regardless of the cache (a file damaged behind the cache's back is restored)",
                        format!("{}: still damaged after the forced run: {:?}", label, missing),
                    );
                } else {
                    // (the cache record is not a binding: it may legitimately carry digests of
                    // the files it vouches for, timestamps included)
                    let bad = canon::compare_to_reference(&after_files, &reference, Cmp::Canon, true);
                    if !bad.is_empty() {
                        co.violate(
                            "C14/force-wrong-output".into(),
                            "B: a forced run leaves the reference output",
                            format!("{}: {:?}", label, bad),
                        );
                    }
                }
                co.tags.push(format!("force/{}", label));
                // ... and a forced run is a generation like any other: the next plain
                // run with nothing changed must find it current and rewrite nothing
                if co.violations.is_empty() && c.procs.len() > 2 {
                    let mut cfg3 = cfg2.clone();
                    cfg3.force = None;
                    if cfg3 != cfg2 {
                        w.write_config(&c.setup, &cfg3);
                    }
                    let before3 = scen::out_files(&w, &c.setup);
                    let r3 = scen::run_tool(env, &w, &c.setup, &cfg3, c.procs[2].clone(), false, c.verbose[2]);
                    co.count("processes", 1);
                    let after3 = scen::out_files(&w, &c.setup);
                    let changed: Vec<&String> = before3.iter().filter(|(n, b)| after3.get(*n) != Some(b)).map(|(n, _)| n).collect();
                    if !r3.res.status.is_ok() {
                        co.violate("C14/repeat-run-fails".into(), "A: a repeated run with nothing changed succeeds", format!("{}: plain run after the forced run returned {}", label, r3.res.status.short()));
                    } else if r3.res.regenerated() || !changed.is_empty() {
                        co.violate(
                            "C14/spurious-regen/after-forced-run".into(),
                            "A: re-running with unchanged sources and configuration leaves every output file untouched",
                            format!("{}: the plain run after a forced run regenerated although nothing changed ({:?})", label, changed),
                        );
                    } else {
                        co.count("cache_hits_on_repeat", 1);
                    }
                }
            } else if c.cache_state == "matching" {
                // neither force source, matching cache: nothing may be rewritten
                let changed: Vec<&String> = before_files
                    .iter()
                    .filter(|(n, b)| after_files.get(*n) != Some(b))
                    .map(|(n, _)| n)
                    .collect();
                if r.res.regenerated() || !changed.is_empty() {
                    let sub = sub_hash_diff(before_files.get(".typecache"), after_files.get(".typecache"));
                    co.violate(
                        format!("C14/spurious-regen/{}", sub),
                        "A: re-running with unchanged sources and configuration leaves every output file untouched",
                        format!("{}: regenerated although nothing changed ({:?})", label, changed),
                    );
                } else {
                    co.count("cache_hits_on_repeat", 1);
                }
                co.tags.push(format!("noforce/{}", label));
            } else {
                // not forced, cache unusable: must regenerate to the reference (C08 territory, counted only)
                co.count("unforced_runs_on_damaged_cache", 1);
                let bad = canon::compare_to_reference(&after_files, &reference, Cmp::Canon, true);
                if !bad.is_empty() {
                    co.count("unforced_damaged_cache_left_stale(not judged here; C08)", 1);
                }
            }
        }
        if co.sample.is_none() {
            co.sample = Some(json!({
                "kind": c.kind,
                "setup": c.setup.label(),
                "source_files": c.model.files.iter().map(|f| f.path.clone()).collect::<Vec<_>>(),
                "commands": c.model.commands().iter().map(|x| x.name.clone()).collect::<Vec<_>>(),
                "mode": c.cfg.mode,
                "mappings": c.cfg.mappings,
                "runs": c.procs.len(),
                "hash_keys_run1": format!("{:x}", c.procs.get(1).map(|p| p.hash_keys[0]).unwrap_or(0)),
                "cache_state": c.cache_state,
                "force_flag": c.force_flag,
                "force_cfg": c.force_cfg,
            }));
        }
        w.destroy();
        co
    }

    fn shrink(&self, case: &Value, _hint: Option<&Value>) -> Vec<Value> {
        let c: Case = match serde_json::from_value(case.clone()) {
            Ok(c) => c,
            Err(_) => return vec![],
        };
        let mut out = vec![];
        // fewer repeat runs
        if c.kind == "idem" && c.procs.len() > 2 {
            for drop in (1..c.procs.len()).rev() {
                let mut d = c.clone();
                d.procs.remove(drop);
                d.verbose.remove(drop);
                out.push(d);
            }
        }
        if c.prelude.is_some() {
            let mut d = c.clone();
            d.prelude = None;
            out.push(d);
        }
        for k in 0..c.foreign.len() {
            let mut d = c.clone();
            d.foreign.remove(k);
            out.push(d);
        }
        if c.prelude.is_none() {
            for m in crate::shrink::shrink_model(&c.model) {
                let mut d = c.clone();
                d.model = m;
                out.push(d);
            }
        }
        for k in c.cfg.mappings.keys() {
            let mut d = c.clone();
            d.cfg.mappings.remove(k);
            out.push(d);
        }
        if c.cfg.visualize {
            let mut d = c.clone();
            d.cfg.visualize = false;
            out.push(d);
        }
        // plain clocks, no chunking
        for k in 0..c.procs.len() {
            if c.procs[k].chunk_seed.is_some() || !c.procs[k].clock.jumps.is_empty() || c.verbose[k] || !c.procs[k].faults.is_empty() {
                let mut d = c.clone();
                d.procs[k].faults.clear();
                d.procs[k].chunk_seed = None;
                d.procs[k].clock = Default::default();
                d.verbose[k] = false;
                out.push(d);
            }
        }
        out.into_iter().map(|d| serde_json::to_value(d).unwrap()).collect()
    }

    fn rule(&self) -> String {
        "case = (generated project of 1..6 source files, configuration, entry point/cwd/config-source, per-process hash keys + readdir permutation + clock script + write chunking; a seventh of the histories with injected short reads / EINTR and one source-file read error). idem cases: one generating run then 2..5 non-forced repeat runs, each a new simulated process; force cases: cache state (absent, matching, mismatching, torn, bit flip, other version, garbage, unreadable, symlink to a directory, symlink loop) x force source matrix. distinct_nontrivial counts distinct (files-with-commands, #type-mappings, entry) classes whose repeat run took a cache decision over >=2 command files or >=2 mappings, plus distinct (cache state, force flag, force config, entry) combinations exercised.".into()
    }
    fn assumptions(&self) -> Vec<String> {
        vec![
            "a simulated process = fresh OS thread with seeded std hash keys (getrandom interposed), permuted readdir64, simulated clock".into(),
            "untouched = no open-for-write/truncate/rename/unlink/utimens traced on a pre-existing output file AND byte-identical contents; real mtimes are not compared (every mtime-changing libc call is traced instead)".into(),
            "the build path's transient .write_test probe is not judged here (it touches no pre-existing file unless one of that name exists; that is C16)".into(),
        ]
    }
}

fn sub_hash_diff(a: Option<&Vec<u8>>, b: Option<&Vec<u8>>) -> String {
    let pa: Option<Value> = a.and_then(|x| serde_json::from_slice(x).ok());
    let pb: Option<Value> = b.and_then(|x| serde_json::from_slice(x).ok());
    match (pa, pb) {
        (Some(x), Some(y)) => {
            let mut v = vec![];
            for k in ["commands_hash", "structs_hash", "config_hash"] {
                if x[k] != y[k] {
                    v.push(k);
                }
            }
            if v.is_empty() {
                "same-hashes".into()
            } else {
                v.join("+")
            }
        }
        _ => "cache-unreadable".into(),
    }
}
