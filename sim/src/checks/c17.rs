//! C17 — a failed run is never remembered as up to date.  Inside each sampled
//! scenario every mutating libc call of the fault-free run is a fault point,
//! and every applicable fault kind is injected at every one of them.

use crate::canon::{self, Cmp};
use crate::harness::{CaseOut, Check, Env, Tier};
use crate::interpose::{Event, FaultAt, FaultKind, FaultSpec, Op, ProcSpec};
use crate::model::{gen_model, GenParams, Model};
use crate::rng::Rng;
use crate::scen::{self, gen_proc, Files};
use crate::world::{Cfg, ConfSrc, Entry, Setup, Snapshot, World};
use serde::{Deserialize, Serialize};
use serde_json::{json, Value};

pub struct C17;

#[derive(Clone, Debug, Serialize, Deserialize)]
struct Case {
    /// "enumerate" | "sequence" | "unusable"
    kind: String,
    /// "first" | "after_edit" | "revert" | "forced" (generated and current; the
    /// faulty run is a forced regeneration) | "lost_file" (generated and current, then one
    /// generated file was deleted: the faulty run is the one that restores it)
    prestate: String,
    model: Model,
    /// the edited model (after_edit / revert)
    model_b: Option<Model>,
    edit_desc: String,
    /// after the preparation run the record is moved out of the output directory and linked back
    #[serde(default)]
    linked_record: bool,
    cfg: Cfg,
    setup: Setup,
    p_prep: ProcSpec,
    p_gold: ProcSpec,
    p_recover: ProcSpec,
    /// replay of a single enumerated fault: (fault point, kind)
    only: Option<(usize, FaultKind)>,
    /// sequence workload: faults of consecutive faulty runs
    seq: Vec<Vec<FaultSpec>>,
    /// fault inside the first recovery run, then a second recovery
    recovery_fault: Option<FaultSpec>,
    /// unusable-output-path workload
    obstacle: String,
}

fn kinds_for(e: &Event) -> Vec<FaultKind> {
    let half = (e.len as usize / 2).max(1);
    match e.op {
        Op::OpenW => vec![
            FaultKind::Err(libc::EACCES),
            FaultKind::Err(libc::ENOSPC),
            FaultKind::Err(libc::EMFILE),
            FaultKind::Eintr,
            FaultKind::CrashBefore,
            FaultKind::CrashAfter,
        ],
        Op::Write => vec![
            FaultKind::Err(libc::EIO),
            FaultKind::WriteErrAfter { k: half, errno: libc::ENOSPC },
            FaultKind::WriteErrAfter { k: 1, errno: libc::EDQUOT },
            FaultKind::ShortWrite { k: half },
            FaultKind::Eintr,
            FaultKind::CrashBefore,
            FaultKind::CrashAfter,
            FaultKind::Torn { k: 1 },
            FaultKind::Torn { k: half },
        ],
        Op::Close => vec![FaultKind::Err(libc::EIO), FaultKind::CrashAfter],
        Op::Mkdir => vec![FaultKind::Err(libc::EACCES), FaultKind::Err(libc::EROFS), FaultKind::CrashBefore, FaultKind::CrashAfter],
        Op::Unlink | Op::Rmdir | Op::Rename | Op::Truncate | Op::Chmod | Op::Link | Op::Symlink | Op::Utimens | Op::Fsync | Op::CopyRange => {
            vec![FaultKind::Err(libc::EACCES), FaultKind::CrashBefore, FaultKind::CrashAfter]
        }
        Op::OpenR | Op::Read | Op::OpenDir => vec![],
    }
}

fn target_of(e: &Event, out_root: &str) -> String {
    if e.path == out_root {
        return "<outdir>".into();
    }
    match e.path.strip_prefix(&format!("{}/", out_root)) {
        Some(n) => n.to_string(),
        None => "<elsewhere>".into(),
    }
}

struct Scenario<'a> {
    w: &'a World,
    c: &'a Case,
    s0: Snapshot,
    reference: Files,
    golden: Files,
    golden_events: Vec<Event>,
    /// configuration of the recovery run (never forced)
    cfg: Cfg,
    /// configuration / flag of the golden and the faulty runs
    run_cfg: Cfg,
    force_flag: bool,
    /// the faulty runs go through the library function generate_from_config
    faulty_lib: bool,
    /// the recovery run goes through the library function (only the bindings are compared then:
    /// the library writes no dependency report)
    recover_lib: bool,
}

fn forced_variant(c: &Case) -> (Cfg, bool) {
    if c.prestate != "forced" {
        return (c.cfg.clone(), false);
    }
    match c.setup.entry {
        Entry::Cli => (c.cfg.clone(), true),
        Entry::Build => {
            let mut x = c.cfg.clone();
            x.force = Some(true);
            (x, false)
        }
    }
}

fn fault_label(k: &FaultKind) -> String {
    match k {
        FaultKind::Err(e) => format!("err{}", e),
        FaultKind::WriteErrAfter { k, .. } => format!("write_err_after{}", if *k <= 1 { "1" } else { "half" }),
        FaultKind::ShortWrite { .. } => "short_write".into(),
        FaultKind::ShortRead { .. } => "short_read".into(),
        FaultKind::Eintr => "eintr".into(),
        FaultKind::CrashBefore => "crash_before".into(),
        FaultKind::CrashAfter => "crash_after".into(),
        FaultKind::Torn { k } => format!("torn{}", if *k <= 1 { "1" } else { "half" }),
    }
}

/// Judge one faulty run followed by recovery.  `faults`: the faults of the run.
#[allow(clippy::too_many_arguments)]
fn judge(env: &mut Env, co: &mut CaseOut, sc: &Scenario, faulty_runs: &[Vec<FaultSpec>], what: &str, sig_tail: &str, hint: Value, recovery_fault: Option<&FaultSpec>) {
    let c = sc.c;
    sc.w.restore(&sc.s0);
    let mut any_fired = false;
    let mut last_masked_only = true;
    // files a faulted run itself tried to remove or rename away: if they are still
    // there it is because the injected fault hit the clean-up, not because none was made
    let mut cleanup_attempted: std::collections::BTreeSet<String> = std::collections::BTreeSet::new();
    let note_cleanup = |trace: &[Event], set: &mut std::collections::BTreeSet<String>| {
        for e in trace {
            if matches!(e.op, Op::Unlink | Op::Rename) {
                set.insert(e.path.rsplit('/').next().unwrap_or("").to_string());
            }
        }
    };
    for (ri, faults) in faulty_runs.iter().enumerate() {
        let mut p = c.p_gold.clone();
        p.hash_keys[0] = p.hash_keys[0].wrapping_add(ri as u64);
        p.faults = faults.clone();
        let r = if sc.faulty_lib { scen::run_library(env, sc.w, &c.setup, &sc.run_cfg, p, false) } else { scen::run_tool(env, sc.w, &c.setup, &sc.run_cfg, p, sc.force_flag, false) };
        co.count("faulty_runs", 1);
        note_cleanup(&r.res.trace, &mut cleanup_attempted);
        let fired = !r.res.fired.is_empty();
        any_fired |= fired;
        for (k, _) in &r.res.fired {
            co.count(&format!("fired/{}", k), 1);
        }
        if !fired {
            co.count("planned_fault_did_not_fire", 1);
            continue;
        }
        let masked = faults.iter().all(|f| f.kind.is_masked());
        last_masked_only &= masked;
        // clause 1: success means current (only for a process that is still alive)
        if !r.res.crashed {
            let files = scen::out_files(sc.w, &c.setup);
            if r.res.status.is_ok() {
                let cmp = if masked { Cmp::Exact } else { Cmp::Canon };
                let want = if masked { &sc.golden } else { &sc.reference };
                let bindings_only = |f: &Files| -> Files { f.iter().filter(|(n, _)| n.ends_with(".ts")).map(|(n, b)| (n.clone(), b.clone())).collect() };
                let bad = if sc.faulty_lib { canon::compare_to_reference(&bindings_only(&files), &bindings_only(want), Cmp::Canon, true) } else { canon::compare_to_reference(&files, want, cmp, true) };
                if !bad.is_empty() {
                    co.violate_hint(
                        format!("C17/ok-but-wrong/{}", sig_tail),
                        "1: a run that hit a failing write reports failure, or its output is complete and current",
                        format!("{}: run returned Ok but {:?}", what, bad),
                        hint.clone(),
                    );
                }
                co.count(if masked { "masked_fault_runs_ok" } else { "error_fault_runs_ok_with_correct_output" }, 1);
            } else if matches!(r.res.status, crate::process::Status::Panic(_)) {
                co.count("faulty_runs_panicked", 1);
            } else {
                co.count("faulty_runs_reported_failure", 1);
            }
        } else {
            co.count("faulty_runs_crashed", 1);
        }
    }
    if !any_fired {
        return;
    }
    // the obstacle is gone; in the `revert` scenario the user also takes the edit back
    if sc.run_cfg != sc.cfg {
        sc.w.write_config(&c.setup, &sc.cfg);
    }
    let all_error_faults = faulty_runs.iter().flatten().all(|f| !f.kind.is_crash());
    let mut want = &sc.reference;
    let reverted: Files;
    if c.prestate == "revert" {
        sc.w.write_sources(&c.model);
        reverted = match scen::reference(env, sc.w, &c.setup, &sc.cfg, 0x5150) {
            Ok(f) => f,
            Err(_) => return,
        };
        want = &reverted;
    }
    // clause 2 + 3: one fault-free non-forced run
    let mut p = c.p_recover.clone();
    let mut second_recovery = false;
    if let Some(f) = recovery_fault {
        p.faults = vec![f.clone()];
        second_recovery = true;
    }
    let rec = if sc.recover_lib { scen::run_library(env, sc.w, &c.setup, &sc.cfg, p, false) } else { scen::run_tool(env, sc.w, &c.setup, &sc.cfg, p, false, false) };
    co.count("recovery_runs", 1);
    let mut rec = rec;
    if second_recovery {
        note_cleanup(&rec.res.trace, &mut cleanup_attempted);
        let mut p2 = c.p_recover.clone();
        p2.hash_keys[1] ^= 0xabcdef;
        rec = scen::run_tool(env, sc.w, &c.setup, &sc.cfg, p2, false, false);
        co.count("recovery_runs", 1);
    }
    let hit = !rec.res.regenerated();
    co.count(if hit { "recovery_was_cache_hit" } else { "recovery_regenerated" }, 1);
    let files = scen::out_files(sc.w, &c.setup);
    if !rec.res.status.is_ok() {
        co.violate_hint(
            format!("C17/recovery-fails/{}", sig_tail),
            "3: once faults stop, one non-forced run succeeds",
            format!("{}: recovery run returned {}", what, rec.res.status.short()),
            hint,
        );
        return;
    }
    let bad = if sc.recover_lib {
        let bindings_only = |f: &Files| -> Files { f.iter().filter(|(n, _)| n.ends_with(".ts")).map(|(n, b)| (n.clone(), b.clone())).collect() };
        canon::compare_to_reference(&bindings_only(&files), &bindings_only(want), Cmp::Canon, true)
    } else {
        canon::compare_to_reference(&files, want, Cmp::Canon, true)
    };
    if !bad.is_empty() {
        let (kind, clause) = if hit {
            ("stale-hit", "2: the cache never vouches for files that are not current (a non-forced run said 'up to date')")
        } else {
            ("recovery-wrong", "3: once faults stop, one non-forced run ends in the same state as a fresh generation")
        };
        co.violate_hint(
            format!("C17/{}/{}", kind, sig_tail),
            clause,
            format!("{}: after recovery {:?}", what, bad),
            hint,
        );
        return;
    }
    if sc.recover_lib {
        return;
    }
    // nothing new is left lying around by a run that was alive to clean up after itself
    // (a killed process cannot; its leftovers are not judged)
    if all_error_faults {
        let before: Files = canon::files_of(&crate::world::Snapshot::from_iter(
            sc.s0.iter().filter_map(|(k, v)| k.strip_prefix(&format!("{}/", c.setup.out)).map(|r| (r.to_string(), v.clone()))),
        ));
        let junk: Vec<&String> = files
            .keys()
            .filter(|n| !want.contains_key(*n) && !before.contains_key(*n) && !sc.golden.contains_key(*n) && !cleanup_attempted.contains(*n))
            .collect();
        if !junk.is_empty() {
            co.violate_hint(
                format!("C17/leftover/{}/{}", crate::checks::c16::name_class(junk[0]), sig_tail),
                "3: ... ends in the same state as a fresh generation (no files that neither the reference nor the earlier state contain)",
                format!("{}: after recovery the output directory also holds {:?}", what, junk),
                hint.clone(),
            );
        }
    }
    // the cache record itself: equal to the one a fresh generation writes
    // (only where the record is a function of sources and configuration at all: if the
    // reference run under other hash keys wrote a different record, that is C14's
    // finding, not a recovery problem)
    let record_deterministic = sc.reference.get(".typecache") == sc.golden.get(".typecache");
    if c.prestate != "revert" && record_deterministic {
        if sc.golden.contains_key(".typecache") && !files.contains_key(".typecache") {
            co.violate_hint(
                format!("C17/cache-record-missing/{}", sig_tail),
                "3: ... ends in the same state as a fresh generation (.typecache included)",
                format!("{}: the recovery run succeeded but left no .typecache (every later run will regenerate)", what),
                hint.clone(),
            );
        }
        if let (Some(a), Some(b)) = (files.get(".typecache"), sc.golden.get(".typecache")) {
            if a != b {
                // Not the same bytes as a fresh generation's record. That alone proves nothing (a
                // record may carry digests of files whose timestamp comment differs); what counts is
                // that it does its job: one more unchanged run must find everything current.
                let mut p3 = c.p_recover.clone();
                p3.hash_keys = [p3.hash_keys[1].rotate_left(5), p3.hash_keys[0] ^ 0x77];
                let again = scen::run_tool(env, sc.w, &c.setup, &sc.cfg, p3, false, false);
                co.count("record_differs_from_golden_checked_functionally", 1);
                if !again.res.status.is_ok() || again.res.regenerated() {
                    co.violate_hint(
                        format!("C17/cache-record-unusable/{}", sig_tail),
                        "3: ... ends in the same state as a fresh generation (the record left by the recovery run is accepted by the next unchanged run)",
                        format!("{}: after recovery one more unchanged run {} ", what, if again.res.status.is_ok() { "regenerated again".to_string() } else { again.res.status.short() }),
                        hint,
                    );
                }
            }
        }
    }
    let _ = last_masked_only;
}

impl Check for C17 {
    fn id(&self) -> &'static str {
        "C17"
    }
    fn name(&self) -> &'static str {
        "failed-run"
    }
    fn level(&self) -> &'static str {
        "fault_enumeration"
    }
    fn cases(&self, tier: Tier) -> u64 {
        match tier {
            Tier::Quick => 130 + 104 + 39,
            Tier::Thorough => 3200,
        }
    }
    fn gen(&self, seed: u64, i: u64, tier: Tier) -> Value {
        let r = Rng::new(crate::harness::case_seed(seed, "C17", i));
        let setups: Vec<Setup> = Setup::all_extended();
        let mut setup = setups[(i % setups.len() as u64) as usize].clone();
        // not always the default output directory (a fall-back to defaults must be visible)
        setup.out = ["app/src/generated", "app/src/bindings", "app/src/lib/api"][((i / 13) % 3) as usize].to_string();
        // the quick tier ends with the full product setup x obstacle of the (cheap) unusable-path
        // scenarios, all with a non-default output directory
        let quick_tail: Option<u64> = if tier == Tier::Quick && (130..234).contains(&i) { Some(i - 130) } else { None };
        // directed block at the end of both tiers (quick: 39 cases, thorough: the last 200): the
        // record `.typecache` is a symbolic link to a file kept outside the output directory
        // when the faulty run starts (after an edit, or after an edit that is then taken back)
        let linked_record = match tier {
            Tier::Quick => i >= 234,
            Tier::Thorough => i >= 3000,
        };
        if let Some(j) = quick_tail {
            setup = setups[(j % setups.len() as u64) as usize].clone();
            setup.out = ["app/src/bindings", "app/src/lib/api"][(j % 2) as usize].to_string();
        }
        let kind_ix = if quick_tail.is_some() { 3 } else { (i / setups.len() as u64) % 5 };
        let kind_ix = if linked_record && kind_ix == 3 { 2 } else { kind_ix };
        let kind = match kind_ix {
            0 | 1 => "enumerate",
            2 | 4 => "sequence", // 4: the read-only-directory sequence
            _ => "unusable",
        };
        let prestate = match (i / 3) % 5 {
            0 => "first",
            1 => "after_edit",
            2 => "revert",
            3 => "forced",
            _ => "lost_file",
        };
        let prestate = if linked_record { ["revert", "after_edit", "revert"][(i % 3) as usize] } else { prestate };
        let mut gp = GenParams::swarm(&mut r.split("params"));
        gp.n_files = gp.n_files.min(3);
        gp.n_types = gp.n_types.min(4);
        gp.n_cmds = gp.n_cmds.min(4);
        if kind_ix == 4 {
            gp.n_events = gp.n_events.max(1);
        }
        let model = gen_model(&mut r.split("model"), &gp);
        let mut cfg = super::c14::gen_cfg(&mut r.split("cfg"), &setup);
        cfg.visualize = i % 5 == 0;
        cfg.flag_visualize = cfg.flag_visualize && cfg.visualize;
        let mut er = r.split("edit");
        let (model_b, edit_desc) = if prestate == "after_edit" || prestate == "revert" {
            // an edit the cache demonstrably notices (checked by the golden run)
            let class = *er.pick(&["add_command", "rename_command", "add_param", "return_type", "add_field", "field_type"]);
            match crate::edits::gen_edit(&mut er, class, &model).or_else(|| crate::edits::gen_edit(&mut er, "add_command", &model)) {
                Some((m, d)) => (Some(m), d),
                None => (None, String::new()),
            }
        } else {
            (None, String::new())
        };
        let mut pr = r.split("procs");
        let p_prep = gen_proc(&mut pr);
        let mut p_gold = gen_proc(&mut pr);
        p_gold.chunk_seed = None; // fault points must be stable between the golden and the faulty run
        p_gold.trace_reads = true; // read-side fault points (source files) are enumerated too
        let p_recover = gen_proc(&mut pr);
        let mut sr = r.split("seq");
        let mut seq = vec![];
        let mut recovery_fault = None;
        if kind == "sequence" {
            let n = sr.range(1, 3);
            for _ in 0..n {
                let at = FaultAt::Mut(sr.below(20) as usize);
                let k = match sr.below(7) {
                    0 => FaultKind::Err(libc::ENOSPC),
                    1 => FaultKind::Err(libc::EIO),
                    2 => FaultKind::CrashBefore,
                    3 => FaultKind::CrashAfter,
                    4 => FaultKind::Torn { k: sr.range(1, 200) },
                    5 => FaultKind::WriteErrAfter { k: sr.range(1, 200), errno: libc::ENOSPC },
                    _ => FaultKind::Eintr,
                };
                seq.push(vec![FaultSpec { at, kind: k }]);
            }
            if sr.chance(1, 2) {
                recovery_fault = Some(FaultSpec {
                    at: FaultAt::Mut(sr.below(20) as usize),
                    kind: if sr.chance(1, 2) { FaultKind::CrashAfter } else { FaultKind::Err(libc::EIO) },
                });
            }
        }
        // a directory that lost its write permission: no entry can be added or removed, files
        // that exist can still be rewritten; the edit (first event -> events.ts) needs a new entry
        let mut model = model;
        let mut model_b = model_b;
        let mut prestate = prestate.to_string();
        let mut edit_desc = edit_desc;
        if kind_ix == 4 && !model.events().is_empty() {
            let with_events = model.clone();
            for f in &mut model.files {
                for it in &mut f.items {
                    if let crate::model::Item::Cmd(c) = it {
                        c.emits.clear();
                    }
                }
            }
            model_b = Some(with_events);
            edit_desc = "the first events are added (events.ts has to be created)".into();
            prestate = if (i / 40) % 2 == 0 { "revert".into() } else { "after_edit".into() };
            seq = vec![vec![FaultSpec { at: FaultAt::DirReadOnly { dir_suffix: format!("/{}", setup.out) }, kind: FaultKind::Err(libc::EACCES) }]];
            recovery_fault = None;
        }
        let obstacles = ["out_is_file", "parent_is_file", "dangling_symlink", "dir_squats_types", "dir_squats_cache", "dir_squats_index", "name_too_long", "dir_squats_commands"];
        // unusable cases are the blocks q with (i / #setups) % 5 == 3; inside a block every setup
        // occurs once: let the obstacle walk with block and setup so that all pairs get met
        let q = i / setups.len() as u64 / 5;
        let obstacle = match quick_tail {
            Some(j) => obstacles[((j / setups.len() as u64) % obstacles.len() as u64) as usize].to_string(),
            None => obstacles[((q + i % setups.len() as u64) % obstacles.len() as u64) as usize].to_string(),
        };
        serde_json::to_value(Case {
            kind: kind.into(),
            prestate,
            model,
            model_b,
            edit_desc,
            linked_record,
            cfg,
            setup,
            p_prep,
            p_gold,
            p_recover,
            only: None,
            seq,
            recovery_fault,
            obstacle,
        })
        .unwrap()
    }

    fn exec(&self, env: &mut Env, case: &Value) -> CaseOut {
        let mut co = CaseOut::default();
        let c: Case = match serde_json::from_value(case.clone()) {
            Ok(c) => c,
            Err(e) => {
                co.harness_error = Some(format!("bad case: {}", e));
                return co;
            }
        };
        let mut setup = c.setup.clone();
        if c.kind == "unusable" && c.obstacle == "name_too_long" {
            setup.out = format!("app/src/{}", "x".repeat(300));
        }
        let c = Case { setup: setup.clone(), ..c };
        let w = scen::materialise(env, &c.model, &c.cfg, &c.setup);
        let out = w.out_dir(&c.setup);
        let out_root = out.to_string_lossy().into_owned();
        // ---- pre-state -------------------------------------------------------------
        if c.prestate != "first" && c.kind != "unusable" {
            let r = scen::run_tool(env, &w, &c.setup, &c.cfg, c.p_prep.clone(), false, false);
            if !r.res.status.is_ok() || !r.res.regenerated() {
                co.discard = Some(format!("preparation run: {}", r.res.status.short()));
                w.destroy();
                return co;
            }
            if c.linked_record {
                let rec = out.join(".typecache");
                let store = out.parent().unwrap().join(".typecache-store");
                if rec.is_file() && std::fs::copy(&rec, &store).is_ok() && std::fs::remove_file(&rec).is_ok() && std::os::unix::fs::symlink(&store, &rec).is_ok() {
                    co.count("faulty_runs_over_a_record_that_is_a_link_to_a_file_elsewhere", 1);
                }
            }
            if c.prestate == "lost_file" {
                let victim = ["types.ts", "commands.ts", "index.ts"][c.p_prep.hash_keys[0] as usize % 3];
                let _ = std::fs::remove_file(out.join(victim));
            } else if c.prestate != "forced" {
                match &c.model_b {
                    Some(m) => w.write_sources(m),
                    None => {
                        co.discard = Some("no eligible edit".into());
                        w.destroy();
                        return co;
                    }
                }
            }
        }
        // ---- unusable output path family ---------------------------------------------
        if c.kind == "unusable" {
            let reference = if c.obstacle == "name_too_long" {
                Files::new()
            } else {
                match scen::reference2(env, &w, &c.setup, &c.cfg) {
                    Ok(f) => f,
                    Err(e) => {
                        co.discard = Some(e);
                        w.destroy();
                        return co;
                    }
                }
            };
            let _ = std::fs::create_dir_all(out.parent().unwrap());
            let remove: Box<dyn Fn()>;
            match c.obstacle.as_str() {
                "out_is_file" => {
                    std::fs::write(&out, "i am a file\n").unwrap();
                    let o = out.clone();
                    remove = Box::new(move || {
                        let _ = std::fs::remove_file(&o);
                    });
                }
                "parent_is_file" => {
                    let par = out.parent().unwrap().to_path_buf();
                    let _ = std::fs::remove_dir_all(&par);
                    std::fs::write(&par, "parent is a file\n").unwrap();
                    remove = Box::new(move || {
                        let _ = std::fs::remove_file(&par);
                        let _ = std::fs::create_dir_all(&par);
                    });
                }
                "dangling_symlink" => {
                    std::os::unix::fs::symlink("/dev/shm/ttg-sim/does/not/exist", &out).unwrap();
                    let o = out.clone();
                    remove = Box::new(move || {
                        let _ = std::fs::remove_file(&o);
                    });
                }
                "name_too_long" => {
                    remove = Box::new(|| {});
                }
                squat => {
                    let name = match squat {
                        "dir_squats_types" => "types.ts",
                        "dir_squats_cache" => ".typecache",
                        "dir_squats_index" => "index.ts",
                        _ => "commands.ts",
                    };
                    let p = out.join(name);
                    std::fs::create_dir_all(&p).unwrap();
                    remove = Box::new(move || {
                        let _ = std::fs::remove_dir_all(&p);
                    });
                }
            }
            let r = scen::run_tool(env, &w, &c.setup, &c.cfg, c.p_gold.clone(), false, false);
            co.count("unusable_path_runs", 1);
            co.count("__evaluations", 1);
            co.reach("obstacle_x_entry", format!("{}/{:?}", c.obstacle, c.setup.entry));
            let sig_tail = format!("unusable/{}", c.obstacle);
            if r.res.status.is_ok() {
                if c.obstacle == "name_too_long" {
                    co.violate(format!("C17/ok-but-wrong/{}", sig_tail), "1: an unusable output path is reported as a failure", "run returned Ok with an over-long output path".into());
                } else {
                    let files = scen::out_files(&w, &c.setup);
                    let bad = canon::compare_to_reference(&files, &reference, Cmp::Canon, true);
                    if !bad.is_empty() {
                        co.violate(
                            format!("C17/ok-but-wrong/{}", sig_tail),
                            "1: an unusable output path is reported as a failure, or the output is complete",
                            format!("obstacle {} ({}): run returned Ok but {:?}", c.obstacle, c.setup.label(), bad),
                        );
                    }
                    co.count("unusable_path_run_ok_with_correct_output", 1);
                }
            } else {
                co.count("unusable_path_run_reported_failure", 1);
                // The simulated process re-states main()'s `Err -> exit status 1`. Confirm it
                // against the real binary (a real OS process), for `generate` and for `init`:
                // a failure must arrive at the caller as a non-zero exit status.
                let bin = crate::checks::c13::real_bin();
                if c.setup.entry == Entry::Cli && std::path::Path::new(&bin).exists() {
                    let snap = w.snapshot();
                    let cwd = w.cwd(&c.setup);
                    let gen_argv = w.argv(&c.setup, &c.cfg, false, false);
                    let mut init_argv: Vec<String> = vec!["cargo".into(), "tauri-typegen".into(), "init".into()];
                    init_argv.extend(["-p".into(), w.project_arg(&c.setup), "-g".into(), w.output_arg(&c.setup), "-v".into(), c.cfg.mode.clone()]);
                    for (what, argv) in [("generate", gen_argv), ("init", init_argv)] {
                        // what the simulated process says for this command line
                        let sim = env.run(&w, &cwd, c.p_recover.clone(), crate::process::Call::Cli(argv.clone()));
                        w.restore(&snap);
                        if sim.res.status.is_ok() {
                            continue;
                        }
                        let real = std::process::Command::new(&bin).args(&argv[1..]).current_dir(&cwd).output();
                        w.restore(&snap);
                        co.count("real_binary_exit_status_checks", 1);
                        match real {
                            Ok(o) if o.status.success() => co.violate(
                                format!("C17/exit-status/{}/{}", what, sig_tail),
                                "1: a failed run reports failure (non-zero exit status)",
                                format!(
                                    "obstacle {}: `{}` fails ({}) but the real binary exits 0; stderr: {}",
                                    c.obstacle,
                                    argv[1..].join(" "),
                                    sim.res.status.short(),
                                    String::from_utf8_lossy(&o.stderr).chars().take(160).collect::<String>()
                                ),
                            ),
                            Ok(_) => {}
                            Err(e) => co.harness_error = Some(format!("cannot start {}: {}", bin, e)),
                        }
                    }
                }
            }
            if c.obstacle != "name_too_long" {
                remove();
                let rec = scen::run_tool(env, &w, &c.setup, &c.cfg, c.p_recover.clone(), false, false);
                let files = scen::out_files(&w, &c.setup);
                let hit = !rec.res.regenerated();
                if !rec.res.status.is_ok() {
                    co.violate(format!("C17/recovery-fails/{}", sig_tail), "3: once the obstacle is removed, one non-forced run succeeds", format!("{}: {}", c.obstacle, rec.res.status.short()));
                } else {
                    let bad = canon::compare_to_reference(&files, &reference, Cmp::Canon, true);
                    if !bad.is_empty() {
                        co.violate(
                            format!("C17/{}/{}", if hit { "stale-hit" } else { "recovery-wrong" }, sig_tail),
                            "2/3: after the obstacle is removed the next non-forced run regenerates to the reference state",
                            format!("obstacle {} ({}): {:?}", c.obstacle, c.setup.label(), bad),
                        );
                    }
                }
            }
            co.tags.push(format!("unusable/{}/{}", c.obstacle, c.setup.label()));
            co.sample = Some(json!({"kind": "unusable", "obstacle": c.obstacle, "setup": c.setup.label()}));
            w.destroy();
            return co;
        }
        // ---- reference, golden run ---------------------------------------------------
        let reference = match scen::reference2(env, &w, &c.setup, &c.cfg) {
            Ok(f) => f,
            Err(e) => {
                co.discard = Some(e);
                w.destroy();
                return co;
            }
        };
        // in the `forced` pre-state the judged runs are forced regenerations
        let (run_cfg, force_flag) = forced_variant(&c);
        if run_cfg != c.cfg {
            w.write_config(&c.setup, &run_cfg);
        }
        let s0 = w.snapshot();
        let gold = scen::run_tool(env, &w, &c.setup, &run_cfg, c.p_gold.clone(), force_flag, false);
        let golden = scen::out_files(&w, &c.setup);
        if !gold.res.status.is_ok() || !gold.res.regenerated() {
            co.discard = Some(format!("golden run did not regenerate ({}): the edit is not noticed by the cache - C08's business", gold.res.status.short()));
            w.destroy();
            return co;
        }
        if !canon::compare_to_reference(&golden, &reference, Cmp::Canon, true).is_empty() {
            co.discard = Some("golden run differs from reference".into());
            w.destroy();
            return co;
        }
        let events: Vec<Event> = gold.res.trace.iter().filter(|e| e.mseq.is_some()).cloned().collect();
        let sc = Scenario { w: &w, c: &c, s0, reference, golden, golden_events: events, cfg: c.cfg.clone(), run_cfg, force_flag, faulty_lib: false, recover_lib: false };
        co.count("golden_fault_points", sc.golden_events.len() as u64);
        let scen_label = format!("{}/{}/{}/{}", c.prestate, c.setup.label(), c.cfg.mode, if c.cfg.visualize { "viz" } else { "noviz" });
        if c.kind == "enumerate" {
            let mut n_inj = 0u64;
            for e in &sc.golden_events {
                let k = e.mseq.unwrap() as usize;
                let tgt = target_of(e, &out_root);
                for kind in kinds_for(e) {
                    if let Some((ok, okind)) = &c.only {
                        if *ok != k || *okind != kind {
                            continue;
                        }
                    }
                    let fl = fault_label(&kind);
                    let what = format!("{} at fault point {} ({} {}) in a {} run [{}]", fl, k, e.op.name(), tgt, c.prestate, c.setup.label());
                    let sig_tail = format!("{}:{}/{}/{}", tgt, e.op.name(), fl, c.prestate);
                    let hint = json!({"k": k, "kind": kind});
                    judge(env, &mut co, &sc, &[vec![FaultSpec { at: FaultAt::Mut(k), kind: kind.clone() }]], &what, &sig_tail, hint, None);
                    n_inj += 1;
                    co.tags.push(format!("{}/{}:{}/{}", scen_label, tgt, e.op.name(), fl));
                    co.reach("file_x_op_x_kind", format!("{}:{}/{}", tgt, e.op.name(), fl));
                }
            }
            // read side: every open/read of a SOURCE file of the golden run. (Configuration files
            // are left alone: the tool documents a fall-back to defaults for an unusable
            // configuration, which is not a failed run.)
            // ... and every listing of a directory of the project (a sub-directory that lost its
            // permissions): the walk must fail, not go on without the files below it
            let read_points: Vec<Event> = gold
                .res
                .trace
                .iter()
                .filter(|e| e.rseq.is_some() && e.ret >= 0 && (e.path.ends_with(".rs") || (e.op == Op::OpenDir && e.path.contains("/app/src-tauri"))))
                .cloned()
                .collect();
            for e in &read_points {
                let k = e.rseq.unwrap() as usize;
                let kinds: Vec<FaultKind> = match e.op {
                    Op::OpenR => vec![FaultKind::Err(libc::EIO), FaultKind::Err(libc::EACCES), FaultKind::Eintr],
                    Op::OpenDir => vec![FaultKind::Err(libc::EACCES), FaultKind::Err(libc::EIO)],
                    Op::Read if e.ret > 0 => vec![FaultKind::Err(libc::EIO), FaultKind::ShortRead { k: (e.ret as usize / 2).max(1) }, FaultKind::Eintr],
                    _ => vec![],
                };
                for kind in kinds {
                    if c.only.is_some() {
                        continue;
                    }
                    let fl = fault_label(&kind);
                    let what = format!("{} at read point {} ({} {}) in a {} run [{}]", fl, k, e.op.name(), e.path.rsplit('/').next().unwrap_or(""), c.prestate, c.setup.label());
                    let sig_tail = format!("{}:{}/{}/{}", if e.op == Op::OpenDir { "<source-dir>" } else { "<source>" }, e.op.name(), fl, c.prestate);
                    judge(env, &mut co, &sc, &[vec![FaultSpec { at: FaultAt::Read(k), kind: kind.clone() }]], &what, &sig_tail, json!(null), None);
                    n_inj += 1;
                    co.reach("file_x_op_x_kind", format!("<source>:{}/{}", e.op.name(), fl));
                }
            }
            // The library function generate_from_config is the third way to produce the bindings (and,
            // since the repair of finding 13, the third keeper of the record). The faulty run goes
            // through it; the recovery run goes through the scenario's own entry point or through the
            // library again, alternately. All clauses apply; a library recovery is compared on the
            // bindings only (the library writes no dependency report).
            if c.only.is_none() && matches!(c.prestate.as_str(), "first" | "after_edit" | "revert") {
                sc.w.restore(&sc.s0);
                let gold_lib = scen::run_library(env, sc.w, &c.setup, &sc.run_cfg, c.p_gold.clone(), false);
                if gold_lib.res.status.is_ok() {
                    let lib_events: Vec<Event> = gold_lib.res.trace.iter().filter(|e| e.mseq.is_some()).cloned().collect();
                    for (ei, e) in lib_events.iter().enumerate() {
                        let k = e.mseq.unwrap() as usize;
                        let tgt = target_of(e, &out_root);
                        let mut kinds: Vec<FaultKind> = kinds_for(e).into_iter().filter(|x| !x.is_crash()).collect();
                        kinds.push(FaultKind::CrashBefore);
                        for (ki, kind) in kinds.into_iter().enumerate() {
                            let recover_lib = (ei + ki) % 2 == 0;
                            let sc2 = Scenario {
                                w: sc.w,
                                c: sc.c,
                                s0: sc.s0.clone(),
                                reference: sc.reference.clone(),
                                golden: sc.golden.clone(),
                                golden_events: vec![],
                                cfg: sc.cfg.clone(),
                                run_cfg: sc.run_cfg.clone(),
                                force_flag: false,
                                faulty_lib: true,
                                recover_lib,
                            };
                            let fl = fault_label(&kind);
                            let what = format!("{} at fault point {} ({} {}) of a LIBRARY call in a {} scenario [{}], recovery through {}", fl, k, e.op.name(), tgt, c.prestate, c.setup.label(), if recover_lib { "the library" } else { "the entry point" });
                            let sig_tail = format!("lib:{}:{}/{}/{}", tgt, e.op.name(), fl, c.prestate);
                            judge(env, &mut co, &sc2, &[vec![FaultSpec { at: FaultAt::Mut(k), kind: kind.clone() }]], &what, &sig_tail, json!(null), None);
                            n_inj += 1;
                            co.count("library_calls_with_a_fault", 1);
                            co.reach("file_x_op_x_kind", format!("lib:{}:{}/{}", tgt, e.op.name(), fl));
                        }
                    }
                }
            }
            co.count("fault_injections", n_inj);
            co.count("__evaluations", n_inj);
        } else {
            let what = format!("sequence {:?} recovery_fault={:?} in a {} run [{}]", c.seq.iter().map(|s| format!("{:?}", s[0])).collect::<Vec<_>>(), c.recovery_fault, c.prestate, c.setup.label());
            let sig_tail = format!("sequence/{}", c.prestate);
            judge(env, &mut co, &sc, &c.seq, &what, &sig_tail, json!(null), c.recovery_fault.as_ref());
            co.count("fault_sequences", 1);
            co.count("__evaluations", 1);
            co.tags.push(format!("{}/seq{}/{}", scen_label, c.seq.len(), c.recovery_fault.is_some()));
        }
        co.reach("scenario", scen_label);
        co.sample = Some(json!({
            "kind": c.kind,
            "prestate": c.prestate,
            "edit": c.edit_desc,
            "setup": c.setup.label(),
            "mode": c.cfg.mode,
            "visualize": c.cfg.visualize,
            "fault_points_of_golden_run": sc.golden_events.iter().map(|e| format!("{}:{} {}", e.mseq.unwrap(), e.op.name(), target_of(e, &out_root))).collect::<Vec<_>>(),
            "sequence": c.seq,
        }));
        w.destroy();
        co
    }

    fn shrink(&self, case: &Value, hint: Option<&Value>) -> Vec<Value> {
        let c: Case = match serde_json::from_value(case.clone()) {
            Ok(c) => c,
            Err(_) => return vec![],
        };
        let mut out = vec![];
        // an enumerated case shrinks to the single failing fault first
        if c.kind == "enumerate" && c.only.is_none() {
            if let Some(h) = hint {
                if let (Some(k), Ok(kind)) = (h["k"].as_u64(), serde_json::from_value::<FaultKind>(h["kind"].clone())) {
                    let mut d = c.clone();
                    d.only = Some((k as usize, kind));
                    out.push(d);
                }
            }
            return out.into_iter().map(|d| serde_json::to_value(d).unwrap()).collect();
        }
        if c.kind == "sequence" {
            for k in (0..c.seq.len()).rev() {
                if c.seq.len() > 1 {
                    let mut d = c.clone();
                    d.seq.remove(k);
                    out.push(d);
                }
            }
            if c.recovery_fault.is_some() {
                let mut d = c.clone();
                d.recovery_fault = None;
                out.push(d);
            }
        }
        if c.cfg.visualize {
            let mut d = c.clone();
            d.cfg.visualize = false;
            out.push(d);
        }
        if !c.cfg.mappings.is_empty() {
            let mut d = c.clone();
            d.cfg.mappings.clear();
            out.push(d);
        }
        // model shrinking keeps fault-point indices meaningful only for sequences and
        // unusable paths; for a pinned enumerated fault the index would shift
        if c.only.is_none() && c.model_b.is_none() {
            for m in crate::shrink::shrink_model(&c.model) {
                let mut d = c.clone();
                d.model = m;
                out.push(d);
            }
        }
        out.into_iter().map(|d| serde_json::to_value(d).unwrap()).collect()
    }

    fn rule(&self) -> String {
        "evaluations = judged faulty executions (one per injected (fault point, kind), per sequence, per unusable path); `cases` = scenarios. case = one scenario: generated project x pre-state (first run ever | generated, then an edit the cache notices | the same, with the edit taken back before recovery | generated and current, the faulty run being a FORCED regeneration) x entry/cwd/config source x mode x visualisation. enumerate scenarios: a fault-free golden run records its mutating libc calls e_0..e_N (mkdir, open/write/close per file, probe, .typecache); for EVERY e_k and EVERY applicable fault kind (error before, error after partial bytes, short write, EINTR, crash before, crash after, torn write at two cut points) the pre-state is restored and the run repeated with exactly that fault, followed by one fault-free non-forced recovery run. sequence scenarios: 1..3 consecutive faulty runs, optionally a fault inside the first recovery. unusable scenarios: output path is a file / parent is a file / dangling symlink / directory squatting on types.ts, commands.ts, index.ts, .typecache / over-long name. After each faulty execution: Ok => complete and current; one fault-free non-forced run succeeds, reaches the reference state (record included) and - for error faults - leaves no file that neither the reference nor the earlier state contains; 'up to date' only over files equal to the reference. distinct_nontrivial = distinct (pre-state, entry, mode, viz, faulted file, faulted call, fault kind) tuples injected.".into()
    }
    fn assumptions(&self) -> Vec<String> {
        vec![
            "crash model = process death in program order: earlier syscalls durable, later ones never happen, the one in flight may be torn; loss/reordering of completed un-synced writes after power loss is not modelled (the tool never fsyncs and the property does not promise it)".into(),
            "a run that reports failure is allowed to leave a .typecache behind as long as a later 'up to date' answer is only ever given over files that equal the reference".into(),
            "enumeration is exhaustive over (fault point, kind) inside a scenario; scenarios are sampled".into(),
        ]
    }
}

#[allow(dead_code)]
fn unused(_: ConfSrc, _: Entry) {}
