//! C20 — the two dependency-ordering routines are correct on every graph,
//! under every hash iteration order.

use crate::harness::{CaseOut, Check, Env, Tier};
use crate::interpose::ProcSpec;
use crate::process::{Call, Status};
use crate::rng::Rng;
use serde::{Deserialize, Serialize};
use serde_json::{json, Value};
use std::collections::{BTreeSet, HashSet};
use tauri_typegen::analysis::dependency_graph::TypeDependencyGraph;
use tauri_typegen::build::dependency_resolver::{
    Dependency, DependencyError, DependencyNode, DependencyNodeType, DependencyResolver, DependencyType,
};

pub struct C20;

#[derive(Clone, Debug, Serialize, Deserialize)]
struct Case {
    n: usize,
    /// (u, v): u depends on v; v >= n denotes an undefined (dangling) name
    edges: Vec<(usize, usize)>,
    /// build the type graph edge by edge (add_dependency) instead of per-node sets
    incremental: bool,
    requested: Vec<Vec<usize>>,
    keys: Vec<[u64; 2]>,
    /// also drive the ordering through `CommandAnalyzer` (the entry point the zod
    /// generator uses): the graph is realised as a project of serde structs
    #[serde(default)]
    via_analyzer: bool,
    /// second phase on the SAME graph object: these dependencies are added after the
    /// first round of queries (through add_dependencies / add_dependency), then the same
    /// requests are asked again
    #[serde(default)]
    edges2: Vec<(usize, usize)>,
    /// resolver only: node i carries the *name* of node alias[i] (same name, other
    /// path / node type: two `Config` structs in two modules)
    #[serde(default)]
    alias: Vec<usize>,
    /// resolver call sequence: 0 = every node once, then the edges; 1 = the edges first,
    /// then every node; 2 = every node twice, then the edges; 3 = interleaved
    #[serde(default)]
    call_order: u8,
}

/// Node names. Nodes 4k and 4k+1 are twins whose names differ only in the case of the last
/// letter (`N4x` / `N4X`): distinct types to a case-sensitive language, one key to anything that
/// folds case.
fn name(i: usize) -> String {
    if i % 4 == 1 {
        format!("N{}X", i - 1)
    } else {
        format!("N{}x", i)
    }
}

fn parse_name(s: &str) -> usize {
    let k: usize = s[1..s.len() - 1].parse().unwrap();
    if s.ends_with('X') {
        k + 1
    } else {
        k
    }
}

fn reach_matrix(n_all: usize, edges: &[(usize, usize)]) -> Vec<Vec<bool>> {
    let mut r = vec![vec![false; n_all]; n_all];
    for &(u, v) in edges {
        r[u][v] = true;
    }
    for k in 0..n_all {
        for i in 0..n_all {
            if r[i][k] {
                for j in 0..n_all {
                    if r[k][j] {
                        r[i][j] = true;
                    }
                }
            }
        }
    }
    r
}

/// Rust source realising the graph: one serde struct per node, one field per edge,
/// one command referencing every node (so that every node is resolved).
fn render_project(c: &Case) -> String {
    let mut o = String::from("use serde::{Deserialize, Serialize};\n\n");
    for u in 0..c.n {
        o.push_str(&format!("#[derive(Serialize, Deserialize)]\npub struct {} {{\n    pub id: u32,\n", name(u)));
        for (k, e) in c.edges.iter().enumerate().filter(|(_, e)| e.0 == u) {
            let t = name(e.1);
            let ty = match k % 4 {
                0 => format!("Vec<{}>", t),
                1 => format!("Option<Vec<{}>>", t),
                2 => format!("HashMap<String, {}>", t),
                _ => format!("Vec<Option<{}>>", t),
            };
            o.push_str(&format!("    pub f{}: {},\n", k, ty));
        }
        o.push_str("}\n\n");
    }
    let args: Vec<String> = (0..c.n).map(|u| format!("a{}: {}", u, name(u))).collect();
    o.push_str(&format!("#[tauri::command]\npub fn touch_all({}) {{}}\n", args.join(", ")));
    o
}

fn run_analyzer(c: &Case, project: &str) -> Result<(), String> {
    let mut an = tauri_typegen::analysis::CommandAnalyzer::new();
    an.analyze_project(project).map_err(|e| e.to_string())?;
    for (k, req) in c.requested.iter().enumerate() {
        let set: HashSet<String> = req.iter().map(|i| name(*i)).collect();
        let sorted = an.topological_sort_types(&set);
        println!("T {} {}", k, sorted.join(","));
    }
    Ok(())
}

fn run_routines(c: &Case) -> Result<(), String> {
    // (1) TypeDependencyGraph
    let mut g = TypeDependencyGraph::new();
    for i in 0..c.n {
        g.add_type_definition(name(i), std::path::PathBuf::from(format!("src/f{}.rs", i % 3)));
    }
    if c.incremental {
        for &(u, v) in &c.edges {
            g.add_dependency(name(u), name(v));
        }
    } else {
        for u in 0..c.n {
            let deps: HashSet<String> = c.edges.iter().filter(|e| e.0 == u).map(|e| name(e.1)).collect();
            if !deps.is_empty() || u % 2 == 0 {
                g.add_dependencies(name(u), deps);
            }
        }
    }
    for (k, req) in c.requested.iter().enumerate() {
        let set: HashSet<String> = req.iter().map(|i| name(*i)).collect();
        let sorted = g.topological_sort_types(&set);
        println!("T {} {}", k, sorted.join(","));
    }
    if !c.edges2.is_empty() {
        // the graph grows; the same object is asked again
        let mut touched: Vec<usize> = c.edges2.iter().map(|e| e.0).collect();
        touched.sort();
        touched.dedup();
        for (j, u) in touched.iter().enumerate() {
            if c.incremental && j % 2 == 0 {
                for e in c.edges2.iter().filter(|e| e.0 == *u) {
                    g.add_dependency(name(e.0), name(e.1));
                }
            } else {
                let deps: HashSet<String> = c.edges.iter().chain(c.edges2.iter()).filter(|e| e.0 == *u).map(|e| name(e.1)).collect();
                g.add_dependencies(name(*u), deps);
            }
        }
        for (k, req) in c.requested.iter().enumerate() {
            let set: HashSet<String> = req.iter().map(|i| name(*i)).collect();
            let sorted = g.topological_sort_types(&set);
            println!("U {} {}", k, sorted.join(","));
        }
    }
    // (2) DependencyResolver (dangling targets are ordinary nodes there); a node's identity
    // is (name, path, type): the path is unique per node, names may be shared
    let node = |i: usize| DependencyNode {
        name: name(c.alias.get(i).copied().unwrap_or(i)),
        path: format!("src/n{}.rs", i),
        node_type: if i % 2 == 0 { DependencyNodeType::Struct } else { DependencyNodeType::Command },
    };
    let idx = |n: &DependencyNode| -> String { n.path.trim_start_matches("src/n").trim_end_matches(".rs").to_string() };
    let mut r = DependencyResolver::new();
    let add_edges = |r: &mut DependencyResolver, from: usize, to: usize| {
        for (k, &(u, v)) in c.edges.iter().enumerate().skip(from).take(to - from) {
            let dependency_type = match k % 5 {
                0 => DependencyType::Field,
                1 => DependencyType::Generic,
                2 => DependencyType::Direct,
                3 => DependencyType::Variant,
                _ => DependencyType::Import,
            };
            r.add_dependency(Dependency { from: node(u), to: node(v), dependency_type });
        }
    };
    let ne = c.edges.len();
    match c.call_order {
        1 => {
            add_edges(&mut r, 0, ne);
            for i in 0..c.n {
                r.add_node(node(i));
            }
        }
        2 => {
            for i in 0..c.n {
                r.add_node(node(i));
            }
            for i in 0..c.n {
                r.add_node(node(i));
            }
            add_edges(&mut r, 0, ne);
        }
        3 => {
            add_edges(&mut r, 0, ne / 2);
            for i in 0..c.n {
                r.add_node(node(i));
            }
            add_edges(&mut r, ne / 2, ne);
            if c.n > 0 {
                r.add_node(node(0));
            }
        }
        _ => {
            for i in 0..c.n {
                r.add_node(node(i));
            }
            add_edges(&mut r, 0, ne);
        }
    }
    match r.resolve_build_order() {
        Ok(order) => println!("R ok {}", order.iter().map(|n| name(idx(n).parse::<usize>().unwrap())).collect::<Vec<_>>().join(",")),
        Err(DependencyError::CircularDependency(s)) => println!("R cycle {}", s),
        Err(e) => println!("R other {}", e),
    }
    Ok(())
}

impl Check for C20 {
    fn id(&self) -> &'static str {
        "C20"
    }
    fn name(&self) -> &'static str {
        "topo-order"
    }
    fn level(&self) -> &'static str {
        "exploration"
    }
    fn cases(&self, tier: Tier) -> u64 {
        match tier {
            Tier::Quick => 4000,
            Tier::Thorough => 200_000,
        }
    }
    fn gen(&self, seed: u64, i: u64, tier: Tier) -> Value {
        let mut r = Rng::new(crate::harness::case_seed(seed, "C20", i));
        let n = match i % 3 {
            0 => r.range(1, 4),
            1 => r.range(3, 7),
            _ => r.range(5, 12),
        };
        let n_dangling = if r.chance(1, 4) { r.range(1, 2) } else { 0 };
        let density = *r.pick(&[5u64, 15, 30, 50, 80]);
        let mut edges = vec![];
        let shape = r.below(6);
        for u in 0..n {
            for v in 0..n + n_dangling {
                let allowed = match shape {
                    0 => v < u,              // DAG
                    1 => v != u,             // no self loops
                    2 => v < u || (v == u && r.chance(1, 6)), // DAG + self loops
                    _ => true,
                };
                if allowed && r.chance(density, 100) {
                    edges.push((u, v));
                }
            }
        }
        if shape == 5 && n >= 3 {
            // one long cycle through everything
            for u in 0..n {
                edges.push((u, (u + 1) % n));
            }
            edges.sort();
            edges.dedup();
        }
        // the same (from, to) pair may be recorded more than once (e.g. once as a field,
        // once as a generic argument)
        if !edges.is_empty() && r.chance(1, 3) {
            for _ in 0..r.range(1, 3) {
                let e = *r.pick(&edges);
                edges.push(e);
            }
        }
        r.shuffle(&mut edges);
        let mut requested = vec![];
        for _ in 0..3 {
            let mut s: Vec<usize> = (0..n).filter(|_| r.chance(1, 2)).collect();
            if s.is_empty() {
                s.push(r.below(n as u64) as usize);
            }
            requested.push(s);
        }
        requested.push((0..n).collect());
        let s = if tier == Tier::Thorough { 24 } else { 8 };
        let keys = (0..s).map(|_| [r.next_u64(), r.next_u64()]).collect();
        let via_analyzer = i % 8 == 5 && n <= 7;
        // a long chain now and then (deeper than any small constant)
        let (n, edges, requested) = if i % 40 == 17 {
            let n = r.range(34, 70);
            let mut e: Vec<(usize, usize)> = (1..n).map(|u| (u, u - 1)).collect();
            for _ in 0..r.range(0, 4) {
                let u = r.range(2, n - 1);
                let v = r.below(u as u64 - 1) as usize;
                e.push((u, v));
            }
            r.shuffle(&mut e);
            (n, e, vec![vec![n - 1], (0..n).collect(), vec![n / 2, n - 1]])
        } else {
            (n, edges, requested)
        };
        // the graph object is extended and asked again
        let mut edges2 = vec![];
        if i % 5 == 3 {
            for _ in 0..r.range(1, 3) {
                let u = r.below(n as u64) as usize;
                let v = r.below(n as u64) as usize;
                if !edges.contains(&(u, v)) {
                    edges2.push((u, v));
                }
            }
        }
        // shared node names (resolver)
        let mut alias: Vec<usize> = (0..n + 4).collect();
        if i % 6 == 4 && n >= 2 {
            for _ in 0..r.range(1, 2) {
                let a = r.range(1, n - 1);
                alias[a] = r.below(a as u64) as usize;
            }
        }
        let call_order = ((i / 7) % 4) as u8;
        serde_json::to_value(Case { n, edges, incremental: r.chance(1, 3), requested, keys, via_analyzer: via_analyzer && n <= 7, edges2, alias, call_order }).unwrap()
    }

    fn exec(&self, env: &mut Env, case: &Value) -> CaseOut {
        let mut co = CaseOut::default();
        let c: Case = match serde_json::from_value(case.clone()) {
            Ok(c) => c,
            Err(e) => {
                co.harness_error = Some(format!("bad case: {}", e));
                return co;
            }
        };
        let n_all = c.edges.iter().chain(c.edges2.iter()).map(|e| e.0.max(e.1) + 1).max().unwrap_or(0).max(c.n);
        let reach = reach_matrix(n_all, &c.edges);
        let same_scc = |a: usize, b: usize| a == b || (reach[a][b] && reach[b][a]);
        let all_edges: Vec<(usize, usize)> = c.edges.iter().chain(c.edges2.iter()).copied().collect();
        let reach2 = reach_matrix(n_all, &all_edges);
        let same_scc2 = |a: usize, b: usize| a == b || (reach2[a][b] && reach2[b][a]);
        let cyclic = (0..n_all).any(|i| reach[i][i]);
        let mut orders: BTreeSet<String> = BTreeSet::new();
        let mut cuts = 0u64;
        for k in &c.keys {
            let mut spec = ProcSpec::plain(k[0]);
            spec.hash_keys = *k;
            let cc = c.clone();
            let res = env.run_func(spec, Call::Func(Box::new(move || run_routines(&cc))));
            co.count("processes", 1);
            match &res.status {
                Status::Ok => {}
                Status::Hang => {
                    co.violate("C20/nontermination".into(), "the routine terminates (also on cyclic graphs)", format!("no result within the step budget; cyclic={}", cyclic));
                    break;
                }
                Status::Panic(p) => {
                    co.violate("C20/panic".into(), "the routine returns", format!("panic: {}", p));
                    continue;
                }
                other => {
                    co.harness_error = Some(format!("workload failed: {:?}", other));
                    return co;
                }
            }
            cuts += res.stderr.matches("Circular dependency detected").count() as u64;
            for line in res.stdout.lines() {
                let mut it = line.splitn(3, ' ');
                let tag = it.next();
                // "U": the same request after the graph object was extended
                let (reach, edges_now, phase): (&Vec<Vec<bool>>, &Vec<(usize, usize)>, &str) = if tag == Some("U") { (&reach2, &all_edges, "/after-growth") } else { (&reach, &c.edges, "") };
                let same_scc = |a: usize, b: usize| if tag == Some("U") { same_scc2(a, b) } else { same_scc(a, b) };
                match tag {
                    Some("T") | Some("U") => {
                        let k: usize = it.next().unwrap().parse().unwrap();
                        let names: Vec<usize> = it
                            .next()
                            .unwrap_or("")
                            .split(',')
                            .filter(|s| !s.is_empty())
                            .map(|s| parse_name(s))
                            .collect();
                        orders.insert(line.to_string());
                        let req = &c.requested[k];
                        // exactly once
                        let set: BTreeSet<usize> = names.iter().copied().collect();
                        if set.len() != names.len() {
                            co.violate(format!("C20/topo/duplicate{}", phase), "each type is returned exactly once", format!("requested {:?}: {:?}", req, names));
                        }
                        // requested + everything reachable
                        let mut want: BTreeSet<usize> = req.iter().copied().collect();
                        for &q in req {
                            for t in 0..n_all {
                                if reach[q][t] {
                                    want.insert(t);
                                }
                            }
                        }
                        if set != want {
                            co.violate(
                                format!("C20/topo/set{}", phase),
                                "the result is the requested types plus all their transitive dependencies",
                                format!("requested {:?}: got {:?}, expected {:?}", req, set, want),
                            );
                        }
                        // dependency before dependent unless on a common cycle
                        let pos = |x: usize| names.iter().position(|y| *y == x);
                        for &(u, v) in edges_now.iter() {
                            if let (Some(pu), Some(pv)) = (pos(u), pos(v)) {
                                if !same_scc(u, v) && pv > pu {
                                    co.violate(
                                        format!("C20/topo/order{}", phase),
                                        "every dependency comes before its dependents when the two are not on a common cycle",
                                        format!("requested {:?}: {} depends on {} but order is {:?}", req, name(u), name(v), names),
                                    );
                                }
                            }
                        }
                    }
                    Some("R") => {
                        let kind = it.next().unwrap_or("");
                        let rest = it.next().unwrap_or("");
                        orders.insert(line.to_string());
                        match kind {
                            "ok" => {
                                let names: Vec<usize> = rest.split(',').filter(|s| !s.is_empty()).map(|s| parse_name(s)).collect();
                                if cyclic {
                                    co.violate("C20/resolver/ok-on-cycle".into(), "a cyclic graph is reported as a circular dependency", format!("edges {:?}: Ok({:?})", c.edges, names));
                                } else {
                                    let set: BTreeSet<usize> = names.iter().copied().collect();
                                    let mut want: BTreeSet<usize> = (0..c.n).collect();
                                    want.extend(c.edges.iter().map(|e| e.1));
                                    if set != want || set.len() != names.len() {
                                        co.violate("C20/resolver/not-permutation".into(), "the build order contains every node exactly once", format!("got {:?} want {:?}", names, want));
                                    }
                                    let pos = |x: usize| names.iter().position(|y| *y == x);
                                    for &(u, v) in &c.edges {
                                        if let (Some(pu), Some(pv)) = (pos(u), pos(v)) {
                                            if pv > pu {
                                                co.violate("C20/resolver/order".into(), "every `to` comes before its `from`", format!("{} depends on {}: {:?}", name(u), name(v), names));
                                            }
                                        }
                                    }
                                }
                            }
                            "cycle" => {
                                if !cyclic {
                                    co.violate("C20/resolver/err-on-dag".into(), "an acyclic graph yields a build order", format!("edges {:?}: CircularDependency({})", c.edges, rest));
                                }
                            }
                            _ => {
                                co.violate("C20/resolver/other-error".into(), "the resolver answers with an order or a circular dependency", rest.to_string());
                            }
                        }
                    }
                    _ => {}
                }
            }
        }
        if c.via_analyzer && co.violations.is_empty() {
            // the same graph through the analyzer's entry point; oracle (1) applies unchanged
            let w = env.world();
            std::fs::write(w.src_tauri().join("src/graph.rs"), render_project(&c)).unwrap();
            let project = w.src_tauri().to_string_lossy().into_owned();
            for k in c.keys.iter().take(3) {
                let mut spec = ProcSpec::plain(k[0]);
                spec.hash_keys = *k;
                let cc = c.clone();
                let pp = project.clone();
                let res = env.run_func(spec, Call::Func(Box::new(move || run_analyzer(&cc, &pp))));
                co.count("processes", 1);
                co.count("analyzer_entry_point_runs", 1);
                if !res.status.is_ok() {
                    co.violate("C20/analyzer/fails".into(), "the routine returns", res.status.short());
                    break;
                }
                for line in res.stdout.lines() {
                    let mut it = line.splitn(3, ' ');
                    if it.next() != Some("T") {
                        continue;
                    }
                    let k: usize = it.next().unwrap().parse().unwrap();
                    let names: Vec<usize> = it.next().unwrap_or("").split(',').filter(|s| s.starts_with('N')).map(|s| parse_name(s)).collect();
                    let req = &c.requested[k];
                    let set: BTreeSet<usize> = names.iter().copied().collect();
                    if set.len() != names.len() {
                        co.violate("C20/analyzer/duplicate".into(), "each type is returned exactly once", format!("requested {:?}: {:?}", req, names));
                    }
                    let mut want: BTreeSet<usize> = req.iter().copied().collect();
                    for &q in req {
                        for t in 0..n_all {
                            if reach[q][t] {
                                want.insert(t);
                            }
                        }
                    }
                    if set != want {
                        co.violate("C20/analyzer/set".into(), "the result is the requested types plus all their transitive dependencies (through CommandAnalyzer::topological_sort_types)", format!("requested {:?}: got {:?}, expected {:?}", req, set, want));
                    }
                    let pos = |x: usize| names.iter().position(|y| *y == x);
                    for &(u, v) in &c.edges {
                        if let (Some(pu), Some(pv)) = (pos(u), pos(v)) {
                            if !same_scc(u, v) && pv > pu {
                                co.violate("C20/analyzer/order".into(), "every dependency comes before its dependents when the two are not on a common cycle", format!("requested {:?}: {} depends on {} but order is {:?}", req, name(u), name(v), names));
                            }
                        }
                    }
                }
            }
            w.destroy();
        }
        co.count("cycle_cut_branch_executions", cuts);
        co.count(if cyclic { "cyclic_graphs" } else { "acyclic_graphs" }, 1);
        co.count("distinct_outputs_across_keys", orders.len() as u64);
        let mut e = c.edges.clone();
        e.sort();
        let key = format!("{}:{:?}", c.n, e);
        if c.n <= 4 && n_all <= 4 {
            co.reach("distinct_graphs_le4_nodes", key.clone());
        }
        if !c.edges.is_empty() {
            co.tags.push(key);
        }
        co.sample = Some(json!({"nodes": c.n, "edges": c.edges, "requested": c.requested, "hash_key_variants": c.keys.len(), "cyclic": cyclic, "distinct_outputs": orders.len()}));
        co
    }

    fn shrink(&self, case: &Value, _hint: Option<&Value>) -> Vec<Value> {
        let c: Case = match serde_json::from_value(case.clone()) {
            Ok(c) => c,
            Err(_) => return vec![],
        };
        let mut out = vec![];
        if c.keys.len() > 1 {
            for k in (0..c.keys.len()).rev() {
                let mut d = c.clone();
                d.keys.remove(k);
                out.push(d);
            }
        }
        if c.requested.len() > 1 {
            for k in (0..c.requested.len()).rev() {
                let mut d = c.clone();
                d.requested.remove(k);
                out.push(d);
            }
        }
        for k in 0..c.edges2.len() {
            let mut d = c.clone();
            d.edges2.remove(k);
            out.push(d);
        }
        if c.call_order != 0 {
            let mut d = c.clone();
            d.call_order = 0;
            out.push(d);
        }
        if c.alias.iter().enumerate().any(|(i, a)| *a != i) {
            let mut d = c.clone();
            d.alias = (0..d.alias.len()).collect();
            out.push(d);
        }
        for k in 0..c.edges.len() {
            let mut d = c.clone();
            d.edges.remove(k);
            out.push(d);
        }
        // drop the highest node
        if c.n > 1 {
            let mut d = c.clone();
            let last = c.n - 1;
            d.n -= 1;
            d.edges.retain(|e| e.0 != last && e.1 != last);
            d.edges2.retain(|e| e.0 < last && e.1 != last);
            d.edges2.iter_mut().for_each(|e| {
                if e.1 > last {
                    e.1 -= 1
                }
            });
            d.edges.iter_mut().for_each(|e| {
                if e.1 > last {
                    e.1 -= 1
                }
            });
            d.requested.iter_mut().for_each(|r| r.retain(|x| *x != last));
            d.requested.retain(|r| !r.is_empty());
            if !d.requested.is_empty() {
                out.push(d);
            }
        }
        for (k, req) in c.requested.iter().enumerate() {
            if req.len() > 1 {
                for j in 0..req.len() {
                    let mut d = c.clone();
                    d.requested[k].remove(j);
                    out.push(d);
                }
            }
        }
        out.into_iter().map(|d| serde_json::to_value(d).unwrap()).collect()
    }

    fn rule(&self) -> String {
        "case = random directed graph on 1..12 labelled nodes (a third with <=4 nodes; DAGs, self-loops, 2-cycles, long cycles, dangling dependencies on undefined names; edge density swept), 4 requested subsets, evaluated through TypeDependencyGraph::topological_sort_types and DependencyResolver::resolve_build_order in 8 (quick) / 24 (thorough) simulated processes with different hash keys; oracle from an independent transitive closure. distinct_nontrivial = distinct graphs (node count + sorted edge list) with at least one edge. Not an enumeration of the 65 536 four-node graphs: `reach.distinct_graphs_le4_nodes` reports how many distinct small graphs were hit.".into()
    }
    fn assumptions(&self) -> Vec<String> {
        vec![
            "hash iteration orders are sampled via seeded RandomState keys per simulated process".into(),
            "termination = a result within 5 s wall-clock per process (recursion depth is bounded by the node count on correct code)".into(),
        ]
    }
}
