//! C13 — output is a deterministic function of sources and configuration:
//! (a) across schedules (hash seeds, directory order, clock, verbosity,
//! visualisation on/off); (b) across semantics-preserving source edits.

use crate::canon::{self};
use crate::harness::{CaseOut, Check, Env, Tier};
use crate::interpose::ProcSpec;
use crate::model::{gen_decoy, gen_model, Command, Emit, Field, GenParams, Item, Model, Namer, Payload, SrcFile, StructDef, Ty};
use crate::rng::Rng;
use crate::scen::{self, gen_proc, Files};
use crate::world::{Cfg, ConfSrc, Entry, Setup, World};
use serde::{Deserialize, Serialize};
use serde_json::{json, Value};
use std::collections::{BTreeMap, BTreeSet};

pub struct C13;

/// built by ./check (thorough tier) from /repo's working tree
pub fn real_bin() -> String {
    format!("{}/sim/target/repo-bin/release/cargo-tauri-typegen", crate::harness::verif_dir())
}

#[derive(Clone, Debug, Serialize, Deserialize)]
struct Case {
    kind: String, // "sched" | "edit"
    model: Model,
    /// extra files relative to src-tauri/ (decoys under target/, .git/, non-.rs files)
    extras: BTreeMap<String, String>,
    cfg: Cfg,
    setup: Setup,
    procs: Vec<ProcSpec>,
    verbose: Vec<bool>,
    viz: Vec<bool>,
    /// run k happens with the whole world moved to another absolute location
    #[serde(default)]
    relocate: Vec<bool>,
    /// process k goes through the library function `generate_from_config` (the third public
    /// entry point; it writes the bindings only - no record, no dependency report)
    #[serde(default)]
    via_library: Vec<bool>,
    /// the runs after the first regenerate over the files the previous run left (no
    /// clean output directory in between)
    #[serde(default)]
    in_place: bool,
    /// run k goes through the other entry point (CLI <-> build script) where the layout
    /// serves both with one configuration
    #[serde(default)]
    other_entry: Vec<bool>,
    flags: Vec<String>,
    // edit workload
    edit_kind: String,
    /// also run the real `cargo-tauri-typegen` binary (a real OS process with real
    /// entropy and clock) and compare: stub-fidelity cross-check
    #[serde(default)]
    real_bin: bool,
    model_after: Option<Model>,
    extras_after: Option<BTreeMap<String, String>>,
}

const EDIT_KINDS: &[&str] = &[
    "comments",
    "decoy_items",
    "non_rs_file",
    "target_decoy",
    "git_decoy",
    "reorder_items",
    "move_item",
    "split_file",
    "merge_files",
    "rename_file",
    "broken_file",
    "huge_comment",
    "doc_comments",
    "rust_noise",
];

fn is_noise(kind: &str) -> bool {
    matches!(kind, "comments" | "decoy_items" | "non_rs_file" | "target_decoy" | "git_decoy" | "broken_file" | "huge_comment" | "doc_comments" | "rust_noise" | "doc_words")
}

const DECOY_RS: &str = "use serde::{Deserialize, Serialize};\n\n#[derive(Serialize, Deserialize)]\npub struct BuildArtifactType {\n    pub leaked: String,\n}\n\n#[tauri::command]\npub fn build_artifact_command(x: BuildArtifactType) -> BuildArtifactType {\n    x\n}\n";

fn apply_edit(r: &mut Rng, kind: &str, m: &Model, extras: &BTreeMap<String, String>) -> (Model, BTreeMap<String, String>) {
    let mut m2 = m.clone();
    let mut e2 = extras.clone();
    let mut nm = Namer::from_model(m);
    match kind {
        "comments" => {
            for _ in 0..r.range(1, 4) {
                let fi = r.below(m2.files.len() as u64) as usize;
                let pos = r.below(m2.files[fi].items.len() as u64 + 1) as usize;
                let text = match r.below(3) {
                    0 => format!("// TODO {}: tidy up {}\n", r.pick(crate::model::WORDS), r.pick(crate::model::WORDS)),
                    1 => "\n\n\n".to_string(),
                    _ => format!("/* multi\n   line {} */\n", r.pick(crate::model::WORDS)),
                };
                m2.files[fi].items.insert(pos, Item::Raw(text));
            }
        }
        "huge_comment" => {
            // a comment block larger than any plausible buffer, in the middle of a file
            let fi = r.below(m2.files.len() as u64) as usize;
            let pos = r.below(m2.files[fi].items.len() as u64 + 1) as usize;
            let mut text = String::with_capacity(80_000);
            let lines = r.range(900, 1400);
            for k in 0..lines {
                text.push_str(&format!("// {:04} lorem ipsum dolor sit amet consectetur adipiscing elit sed do\n", k));
            }
            m2.files[fi].items.insert(pos, Item::Raw(text));
        }
        "doc_comments" => {
            // documentation comments in front of commands, types and inside nothing else: `///`,
            // `/** */`
            for _ in 0..r.range(1, 4) {
                let fi = r.below(m2.files.len() as u64) as usize;
                let real: Vec<usize> = m2.files[fi].items.iter().enumerate().filter(|(_, it)| !matches!(it, Item::Raw(_))).map(|(k, _)| k).collect();
                if real.is_empty() {
                    continue;
                }
                let pos = *r.pick(&real);
                let w1 = *r.pick(crate::model::WORDS);
                let text = match r.below(3) {
                    0 => format!("/// Handles the {} part.\n///\n/// # Errors\n/// never\n", w1),
                    1 => format!("/** {} documentation\n * second line\n */\n", w1),
                    _ => format!("/// `{}`: see <https://example.invalid/{}>\n", w1, w1),
                };
                m2.files[fi].items.insert(pos, Item::Raw(text));
            }
        }
        "doc_words" => {
            // documentation comments whose TEXT names the traits the tool looks for in derive
            // lists, in front of every type that derives neither (asked for by name in the
            // directed block at the end of both tiers; not in EDIT_KINDS)
            for f in m2.files.iter_mut() {
                let mut k = 0;
                while k < f.items.len() {
                    if matches!(&f.items[k], Item::Struct(sd) if !sd.serde) {
                        let text = match r.below(4) {
                            0 => "/// Serialized by hand (see the impl of Serialize below).\n".to_string(),
                            1 => "/** Not Deserialize: built by the session layer only. */\n".to_string(),
                            2 => "/// Opaque handle.\n///\n/// Kept out of `#[derive(Serialize, Deserialize)]` on purpose.\n".to_string(),
                            _ => "#[doc = \"Serialize / Deserialize are implemented manually\"]\n".to_string(),
                        };
                        f.items.insert(k, Item::Raw(text));
                        k += 1;
                    }
                    k += 1;
                }
            }
        }
        "rust_noise" => {
            // items that are neither commands nor serde types, of every kind the language has
            for _ in 0..r.range(1, 4) {
                let fi = r.below(m2.files.len() as u64) as usize;
                let pos = r.below(m2.files[fi].items.len() as u64 + 1) as usize;
                let n = r.range(1, 99_999);
                let text = match r.below(13) {
                    // other crates have attributes called `command` too
                    11 => format!("#[poise::command(slash_command)]\npub async fn bot_{n}(ctx: u32) -> Result<(), String> {{\n    let _ = ctx;\n    Ok(())\n}}\n", n = n),
                    12 => format!("#[cli::command]\n#[allow(dead_code)]\nfn tool_{n}(verbose: bool) -> bool {{\n    verbose\n}}\n", n = n),
                    0 => format!("mod helpers_{n} {{\n    pub fn inner(x: u8) -> u8 {{\n        x\n    }}\n\n    pub struct Local {{\n        pub a: i32,\n    }}\n}}\n", n = n),
                    1 => format!("#[cfg(test)]\nmod tests_{n} {{\n    #[test]\n    fn works() {{\n        assert_eq!(1, 1);\n    }}\n}}\n", n = n),
                    2 => format!("macro_rules! noop_{n} {{\n    () => {{}};\n    ($x:expr) => {{\n        $x\n    }};\n}}\n", n = n),
                    3 => format!("pub trait Describe{n} {{\n    fn describe(&self) -> String;\n\n    fn twice(&self) -> String {{\n        format!(\"{{}}{{}}\", self.describe(), self.describe())\n    }}\n}}\n", n = n),
                    4 => format!("#[allow(dead_code)]\ntype Bytes{n} = Vec<u8>;\n", n = n),
                    5 => format!("#[allow(unused_imports)]\nuse std::collections::BTreeMap as Map{n};\n", n = n),
                    6 => format!("#[allow(dead_code)]\nfn outer_{n}() {{\n    struct Inner {{\n        a: i32,\n    }}\n    fn nested() {{}}\n    let v = Inner {{ a: 1 }};\n    let _ = v.a;\n    nested();\n}}\n", n = n),
                    7 => format!("#[allow(dead_code)]\npub fn r#match_{n}(r#type: u8) -> u8 {{\n    r#type\n}}\n", n = n),
                    8 => format!("#[allow(dead_code)]\npub(crate) async fn background_{n}() -> Result<(), String> {{\n    Ok(())\n}}\n", n = n),
                    9 => format!("#[allow(dead_code)]\npub union Bits{n} {{\n    pub i: u32,\n    pub f: f32,\n}}\n", n = n),
                    _ => format!("#[allow(dead_code)]\npub struct Wrapper{n}(pub i32);\n\nimpl std::fmt::Display for Wrapper{n} {{\n    fn fmt(&self, f: &mut std::fmt::Formatter<'_>) -> std::fmt::Result {{\n        write!(f, \"{{}}\", self.0)\n    }}\n}}\n", n = n),
                };
                m2.files[fi].items.insert(pos, Item::Raw(text));
            }
        }
        "decoy_items" => {
            for _ in 0..r.range(1, 3) {
                let fi = r.below(m2.files.len() as u64) as usize;
                let pos = r.below(m2.files[fi].items.len() as u64 + 1) as usize;
                // sometimes the decoy is a non-serde enum that shares its NAME with a serde type
                // the project uses (another module's private `enum Status`)
                let used: Vec<String> = crate::edits::reachable_types(m).into_iter().collect();
                let d = if !used.is_empty() && r.chance(1, 3) {
                    Item::Raw(format!("#[derive(Debug, Clone, Copy, PartialEq)]\npub enum {} {{\n    Idle,\n    Busy,\n}}\n", r.pick(&used)))
                } else {
                    gen_decoy(r, &mut nm)
                };
                m2.files[fi].items.insert(pos, d);
            }
        }
        "non_rs_file" => {
            e2.insert("src/notes.txt".into(), "#[tauri::command]\nfn not_rust() {}\n".into());
            e2.insert("src/data/schema.json".into(), "{ \"a\": 1 }\n".into());
        }
        "target_decoy" => {
            e2.insert("target/debug/build/app-1234/out/generated.rs".into(), DECOY_RS.into());
        }
        "git_decoy" => {
            e2.insert(".git/hooks/sample.rs".into(), DECOY_RS.into());
        }
        "broken_file" => {
            e2.insert("src/broken_wip.rs".into(), "pub fn unfinished( {\n    let x = ;\n".into());
        }
        "reorder_items" => {
            let fi = r.below(m2.files.len() as u64) as usize;
            r.shuffle(&mut m2.files[fi].items);
        }
        "move_item" => {
            if m2.files.len() >= 2 {
                let from = r.below(m2.files.len() as u64) as usize;
                if !m2.files[from].items.is_empty() {
                    let ii = r.below(m2.files[from].items.len() as u64) as usize;
                    let it = m2.files[from].items.remove(ii);
                    let mut to = r.below(m2.files.len() as u64) as usize;
                    if to == from {
                        to = (to + 1) % m2.files.len();
                    }
                    m2.files[to].items.push(it);
                }
            } else {
                let it = if m2.files[0].items.is_empty() { None } else { Some(m2.files[0].items.remove(0)) };
                m2.files.push(SrcFile { path: "src/moved_here.rs".into(), items: it.into_iter().collect() });
            }
        }
        "split_file" => {
            let fi = r.below(m2.files.len() as u64) as usize;
            let n = m2.files[fi].items.len();
            let cut = n / 2;
            let tail: Vec<Item> = m2.files[fi].items.split_off(cut);
            m2.files.push(SrcFile { path: format!("src/split_{}.rs", r.range(1, 99)), items: tail });
        }
        "merge_files" => {
            if m2.files.len() >= 2 {
                let a = r.below(m2.files.len() as u64) as usize;
                let f = m2.files.remove(a);
                let b = r.below(m2.files.len() as u64) as usize;
                m2.files[b].items.extend(f.items);
            }
        }
        "rename_file" => {
            let fi = r.below(m2.files.len() as u64) as usize;
            let (w1, w2) = (*r.pick(crate::model::WORDS), *r.pick(crate::model::WORDS));
            // (the words are drawn first, as always; every third renamed file goes DEEP: eight
            // directory levels below the project root)
            m2.files[fi].path = if (w1.len() + w2.len()) % 3 == 0 {
                format!("src/features/{}/exports/pdf/v2/internal/{}.rs", w1, w2)
            } else {
                format!("src/renamed_{}/{}.rs", w1, w2)
            };
        }
        _ => {}
    }
    (m2, e2)
}

/// Flagged special worlds: the same event emitted from two files; the same
/// type name defined in two files.
///
/// The duplicated type name is only used in the across-schedule workload: which
/// of two same-named types a command means depends on Rust name resolution
/// (module paths, imports), which the tool does not do, so moving such a type
/// or renaming its file legitimately changes the winner.  Demanding layout
/// invariance there would ask for more than C13 states.
pub fn add_specials(r: &mut Rng, m: &mut Model, flags: &mut Vec<String>, allow_dup_type: bool) {
    if m.files.len() >= 2 && r.chance(1, 8) {
        // same event from two files (same payload kind)
        let ev: Option<Emit> = m.events().first().map(|(_, e)| (*e).clone());
        if let Some(mut e) = ev {
            if matches!(e.payload, Payload::Var(_)) {
                e.payload = Payload::Int;
            }
            let mut nm = Namer::from_model(m);
            let f = Command {
                name: nm.fresh(r, "cmd"),
                params: vec![],
                chans: vec![],
                ret: None,
                is_async: false,
                short_attr: false,
                emits: vec![e],
                is_command: false,
            };
            let k = r.below(m.files.len() as u64) as usize;
            m.files[k].items.push(Item::Cmd(f));
            flags.push("dup_event".into());
        }
    }
    if m.files.len() >= 2 && r.chance(1, 6) {
        // the same emitting helper, verbatim, as the first item of two files: the two
        // emit sites agree in event name, payload *and line number*
        let mut nm = Namer::from_model(m);
        let f = Command {
            name: nm.fresh(r, "cmd"),
            params: vec![],
            chans: vec![],
            ret: None,
            is_async: false,
            short_attr: false,
            emits: vec![Emit { event: nm.fresh(r, "event"), payload: Payload::Str, emit_to: false }],
            is_command: false,
        };
        let a = r.below(m.files.len() as u64) as usize;
        let b = (a + 1 + r.below(m.files.len() as u64 - 1) as usize) % m.files.len();
        m.files[a].items.insert(0, Item::Cmd(f.clone()));
        m.files[b].items.insert(0, Item::Cmd(f));
        flags.push("twin_emitter".into());
    }
    if allow_dup_type && m.files.len() >= 2 && r.chance(1, 8) {
        // same type name in two files, different fields
        let name: Option<String> = m.structs().iter().find(|s| s.serde).map(|s| s.name.clone());
        if let Some(name) = name {
            let holder = m.files.iter().position(|f| f.items.iter().any(|i| i.name() == Some(&name))).unwrap();
            let other = (holder + 1 + r.below(m.files.len() as u64 - 1) as usize) % m.files.len();
            m.files[other].items.push(Item::Struct(StructDef {
                name,
                fields: vec![Field {
                    name: "shadow_field".into(),
                    ty: Ty::Prim("bool".into()),
                    public: true,
                    rename: None,
                    skip: false,
                    validate: None,
                }],
                rename_all: None,
                serde: true,
                qualified_derive: false,
            }));
            flags.push("dup_type".into());
        }
    }
    // two DIFFERENT events whose names differ only in their separators (job_done / job-done): the
    // listener functions derived from them have one name; the events, their payloads and both
    // listeners are separate things (own stream: drawn after everything else)
    let mut tr = r.split("twin-listener");
    if tr.chance(1, 5) {
        let cand: Option<String> = m.events().iter().map(|(_, e)| e.event.clone()).find(|n| n.contains('-') || n.contains('_'));
        if let Some(name) = cand {
            let twin: String = name.chars().map(|ch| if ch == '-' { '_' } else if ch == '_' { '-' } else { ch }).collect();
            if !m.events().iter().any(|(_, e)| e.event == twin) {
                let mut nm = Namer::from_model(m);
                let f = Command {
                    name: nm.fresh(&mut tr, "cmd"),
                    params: vec![],
                    chans: vec![],
                    ret: None,
                    is_async: false,
                    short_attr: false,
                    emits: vec![Emit { event: twin, payload: if tr.chance(1, 2) { Payload::Int } else { Payload::Bool }, emit_to: false }],
                    is_command: false,
                };
                let k = tr.below(m.files.len() as u64) as usize;
                let pos = tr.below(m.files[k].items.len() as u64 + 1) as usize;
                m.files[k].items.insert(pos, Item::Cmd(f));
                flags.push("twin_listener".into());
            }
        }
    }
}

fn forced_run(env: &mut Env, w: &World, setup: &Setup, cfg: &Cfg, p: ProcSpec, verbose: bool, viz: bool) -> Result<Files, String> {
    forced_run_opt(env, w, setup, cfg, p, verbose, viz, true)
}

#[allow(clippy::too_many_arguments)]
fn forced_run_opt(env: &mut Env, w: &World, setup: &Setup, cfg: &Cfg, p: ProcSpec, verbose: bool, viz: bool, clean_out: bool) -> Result<Files, String> {
    let mut c = cfg.clone();
    c.visualize = viz;
    c.flag_visualize = c.flag_visualize && viz;
    let mut flag = false;
    match setup.entry {
        Entry::Cli => flag = true,
        Entry::Build => c.force = Some(true),
    }
    w.write_config(setup, &c);
    let out = w.out_dir(setup);
    if clean_out {
        let _ = std::fs::remove_dir_all(&out);
    }
    let r = scen::run_tool(env, w, setup, &c, p, flag, verbose);
    if !r.res.status.is_ok() {
        return Err(r.res.status.short());
    }
    Ok(scen::out_files(w, setup))
}

fn fn_order(commands_ts: &[u8]) -> String {
    String::from_utf8_lossy(commands_ts)
        .lines()
        .filter_map(|l| l.strip_prefix("export async function "))
        .map(|l| l.split('(').next().unwrap_or("").to_string())
        .collect::<Vec<_>>()
        .join(",")
}
fn decl_order(types_ts: &[u8]) -> String {
    canon::blocks(&canon::strip_ts(types_ts))
        .iter()
        .filter_map(|b| {
            let l = b.lines().next().unwrap_or("");
            l.strip_prefix("export ").map(|x| x.split_whitespace().nth(1).unwrap_or("").to_string())
        })
        .collect::<Vec<_>>()
        .join(",")
}

fn compare_files(co: &mut CaseOut, a: &Files, b: &Files, what: &str, exact: bool, include_graph: bool) {
    let na: BTreeSet<&String> = a.keys().filter(|n| include_graph || !n.starts_with("dependency-graph")).collect();
    let nb: BTreeSet<&String> = b.keys().filter(|n| include_graph || !n.starts_with("dependency-graph")).collect();
    if na != nb {
        co.violate(
            "C13/fileset".into(),
            "the set of generated files is the same",
            format!("{}: {:?} vs {:?}", what, na, nb),
        );
        return;
    }
    for n in na {
        let (x, y) = (&a[n], &b[n]);
        if n == ".typecache" {
            continue; // the cache record is judged by C14
        }
        if n.starts_with("dependency-graph") {
            if x != y {
                let order_only = canon::loose_lines_key(x) == canon::loose_lines_key(y);
                co.violate(
                    format!("C13/{}/{}", if order_only { "order" } else { "content" }, n),
                    "identical files apart from the timestamp comment",
                    format!("{}: {} differs", what, n),
                );
            }
            continue;
        }
        if canon::exact_eq(x, y) {
            continue;
        }
        // a layout change of the sources: comments are not declarations (second opinion without them)
        if !exact && canon::decls_eq(x, y) {
            continue;
        }
        if canon::canon_eq(x, y) {
            if exact {
                co.violate(
                    format!("C13/order/{}", n),
                    "identical files apart from the timestamp comment",
                    format!("{}: {}", what, canon::first_diff(x, y)),
                );
            }
        } else {
            co.violate(
                format!("C13/content/{}", n),
                "same set of declarations with the same content",
                format!("{}: {}", what, canon::first_diff(x, y)),
            );
        }
    }
}

impl Check for C13 {
    fn id(&self) -> &'static str {
        "C13"
    }
    fn name(&self) -> &'static str {
        "determinism"
    }
    fn level(&self) -> &'static str {
        "exploration"
    }
    fn cases(&self, tier: Tier) -> u64 {
        match tier {
            Tier::Quick => 650 + 26,
            Tier::Thorough => 12000,
        }
    }
    fn gen(&self, seed: u64, i: u64, tier: Tier) -> Value {
        let r = Rng::new(crate::harness::case_seed(seed, "C13", i));
        let setups = Setup::all_extended();
        let setup = setups[(i % setups.len() as u64) as usize].clone();
        let mut gp = GenParams::swarm(&mut r.split("params"));
        gp.n_files = 2 + ((i / setups.len() as u64) % 5) as usize; // 2..6
        gp.n_cmds = gp.n_cmds.max(gp.n_files);
        gp.n_types = gp.n_types.max(2);
        if i % 4 == 3 {
            // dense worlds: many emitting functions in few files, so that items of one
            // file interact if any per-item state leaks into the next item
            gp.n_files = 2 + (i as usize / 4) % 2;
            gp.n_events = 6;
            gp.n_cmds = gp.n_cmds.max(5);
            gp.local_heavy = true;
            gp.tuple_events = false;
        }
        let mut mr = r.split("model");
        let mut model = gen_model(&mut mr, &gp);
        let mut flags = vec![];
        // directed block at the end of both tiers (quick: 26 worlds, thorough: the last 200): a type
        // WITHOUT serde derives that a command takes and returns, and as the edit documentation
        // comments in front of such types whose text mentions Serialize / Deserialize
        let doc_tail = match tier {
            Tier::Quick => i >= 650,
            Tier::Thorough => i >= 11800,
        };
        let edit_case = i % 2 == 1 || doc_tail;
        add_specials(&mut mr, &mut model, &mut flags, !edit_case);
        if doc_tail {
            let name = format!("SessionToken{}", i);
            let fld = |n: &str, ty: &str| Field { name: n.into(), ty: Ty::Prim(ty.into()), public: true, rename: None, skip: false, validate: None };
            let at = (i as usize / 2) % model.files.len();
            model.files[at].items.push(Item::Struct(StructDef { name: name.clone(), fields: vec![fld("secret", "String"), fld("expires_at", "u64")], rename_all: None, serde: false, qualified_derive: false }));
            let at2 = (i as usize / 3) % model.files.len();
            model.files[at2].items.push(Item::Cmd(Command {
                name: format!("refresh_session_{}", i),
                params: vec![crate::model::Param { name: "token".into(), ty: Ty::Named(name.clone()) }],
                chans: vec![],
                ret: Some(Ty::Named(name)),
                is_async: i % 4 < 2,
                short_attr: false,
                emits: vec![],
                is_command: true,
            }));
            flags.push("non-serde-type-in-command".into());
        }
        // many source files (17..70) in an eighth of the worlds
        if (i / 13) % 8 == 3 {
            let mut wr = r.split("widen");
            let target = *wr.pick(&[17usize, 18, 33, 64, 65, 70]);
            crate::model::widen(&mut model, &mut wr, target);
            flags.push(format!("files={}", target));
        }
        // several mappings for instantiations of one generic, none of them the one the sources
        // use: `Id<A>` and `Id<B>` are mapped, a field has type `Id<C>` (the model is complete
        // BEFORE any edit is derived from it)
        let mut generic_mappings: Vec<(String, String)> = vec![];
        if setup.conf != ConfSrc::Flags && (i / 8) % 5 == 3 {
            let local = model.serde_type_names();
            if local.len() >= 3 {
                let mut xr = r.split("generic-mapping");
                let target = local[2].clone();
                let reach = crate::edits::reachable_types(&model);
                let holder: Option<String> = model.structs().iter().find(|s| s.serde && reach.contains(&s.name)).map(|s| s.name.clone());
                if let Some(h) = holder {
                    if let Some(st) = model.struct_mut(&h) {
                        st.fields.push(Field { name: format!("generic_id_{}", xr.range(1, 99)), ty: Ty::Gen("Id".into(), vec![Ty::Named(target)]), public: true, rename: None, skip: false, validate: None });
                        generic_mappings.push((format!("Id<{}>", local[0]), "AId".into()));
                        generic_mappings.push((format!("Id<{}>", local[1]), "BId".into()));
                        generic_mappings.push(("Id<u64>".into(), "NumId".into()));
                    }
                }
            }
        }
        let cfg = super::c14::gen_cfg(&mut r.split("cfg"), &setup);
        let mut pr = r.split("procs");
        let s = if edit_case {
            2
        } else if tier == Tier::Thorough {
            12
        } else {
            6
        };
        let mut procs: Vec<ProcSpec> = (0..s).map(|_| gen_proc(&mut pr)).collect();
        // legal I/O behaviour as one more thing two runs may differ in: short reads and
        // interrupted calls while sources and configuration are read (all but the first process)
        if i % 9 == 5 {
            let mut qr = r.split("masked-faults");
            for p in procs.iter_mut().skip(1) {
                for _ in 0..qr.range(1, 4) {
                    let at = crate::interpose::FaultAt::Read(qr.below(60) as usize);
                    let kind = if qr.chance(1, 4) { crate::interpose::FaultKind::Eintr } else { crate::interpose::FaultKind::ShortRead { k: qr.range(1, 48) } };
                    p.faults.push(crate::interpose::FaultSpec { at, kind });
                }
            }
            // the last process cannot read one source file, or list one directory of the project, at all
            if let Some(p) = procs.last_mut() {
                // (schedule worlds only: the edit cases compare outcomes before and after an edit)
                if s >= 2 && !edit_case {
                    let at = if qr.chance(1, 3) {
                        crate::interpose::FaultAt::PathOp {
                            suffix: qr.pick(&["/src-tauri/src", "/commands", "/models", "/util", "/events", "/bulk"]).to_string(),
                            op: crate::interpose::Op::OpenDir,
                            nth: 0,
                        }
                    } else {
                        crate::interpose::FaultAt::PathOp { suffix: ".rs".into(), op: if qr.chance(1, 2) { crate::interpose::Op::OpenR } else { crate::interpose::Op::Read }, nth: qr.below(5) as usize }
                    };
                    p.faults.push(crate::interpose::FaultSpec { at, kind: crate::interpose::FaultKind::Err(if qr.chance(1, 2) { libc::EIO } else { libc::EACCES }) });
                }
            }
        }
        let verbose: Vec<bool> = (0..s).map(|_| setup.entry == Entry::Cli && pr.chance(1, 3)).collect();
        let viz_world = pr.chance(1, 2);
        let viz_mixed = pr.chance(1, 3);
        let viz: Vec<bool> = (0..s)
            .map(|k| if viz_mixed { k % 2 == 0 } else { viz_world })
            .collect();
        let relocate: Vec<bool> = (0..s).map(|k| k > 0 && !edit_case && pr.chance(1, 4)).collect();
        let mut er = r.split("edit");
        let edit_kind = if doc_tail { "doc_words".to_string() } else { EDIT_KINDS[((i / 2) % EDIT_KINDS.len() as u64) as usize].to_string() };
        let extras: BTreeMap<String, String> = BTreeMap::new();
        let (model_after, extras_after) = if edit_case {
            let (m2, e2) = apply_edit(&mut er, &edit_kind, &model, &extras);
            (Some(m2), Some(e2))
        } else {
            (None, None)
        };
        let mut cfg = cfg;
        if setup.conf != ConfSrc::Flags && (i / 8) % 3 == 0 {
            // a mapping that names a type the project defines itself
            let local = model.serde_type_names();
            if !local.is_empty() {
                let mut xr = r.split("local-mapping");
                cfg.mappings.insert(xr.pick(&local).clone(), xr.pick(&["string", "number"]).to_string());
            }
        }
        for (k, v) in generic_mappings {
            cfg.mappings.insert(k, v);
        }
        let (setup_cwd, setup_conf) = (setup.cwd, setup.conf);
        // flag overrides exist on the CLI only: such a configuration cannot be shared
        let cfg_plain_for_both = cfg.file_mode.is_none() && !cfg.flag_visualize && cfg.file_out.is_none();
        let real_bin = tier == Tier::Thorough && !edit_case && setup.entry == Entry::Cli && i % 16 == 0;
        serde_json::to_value(Case {
            kind: if edit_case { "edit".into() } else { "sched".into() },
            model,
            extras,
            cfg,
            setup,
            procs,
            verbose,
            viz,
            relocate,
            via_library: {
                let mut lr = r.split("library");
                (0..s).map(|k| k > 0 && i % 2 == 0 && (i / 13) % 5 == 2 && lr.chance(1, 2)).collect()
            },
            in_place: !edit_case && !viz_mixed && i % 4 == 2,
            other_entry: (0..s)
                .map(|k| {
                    k > 0
                        && !edit_case
                        && cfg_plain_for_both
                        && matches!((setup_cwd, setup_conf), (crate::world::Cwd::SrcTauri, ConfSrc::Tauri) | (crate::world::Cwd::SrcTauri, ConfSrc::Standalone) | (crate::world::Cwd::App, ConfSrc::Standalone))
                        && k % 3 == 1
                })
                .collect(),
            flags,
            edit_kind,
            real_bin,
            model_after,
            extras_after,
        })
        .unwrap()
    }

    fn exec(&self, env: &mut Env, case: &Value) -> CaseOut {
        let mut co = CaseOut::default();
        let c: Case = match serde_json::from_value(case.clone()) {
            Ok(c) => c,
            Err(e) => {
                co.harness_error = Some(format!("bad case: {}", e));
                return co;
            }
        };
        let w = scen::materialise(env, &c.model, &c.cfg, &c.setup);
        for (p, t) in &c.extras {
            w.write_extra(p, t);
        }
        let flag_s = if c.flags.is_empty() { "plain".to_string() } else { c.flags.join("+") };
        if c.kind == "sched" {
            let mut outs: Vec<Files> = vec![];
            for k in 0..c.procs.len() {
                // the same checkout at another absolute location (relative configuration only)
                let moved = c.relocate.get(k).copied().unwrap_or(false) && c.setup.out_style != crate::world::OutStyle::Absolute;
                let w_run = if moved {
                    let new_root = w.root.with_file_name(format!("relocated-{}", k));
                    let _ = std::fs::remove_dir_all(&new_root);
                    std::fs::rename(&w.root, &new_root).expect("move world");
                    co.count("runs_at_another_absolute_location", 1);
                    World { root: new_root }
                } else {
                    w.clone()
                };
                let mut setup_k = c.setup.clone();
                if c.other_entry.get(k).copied().unwrap_or(false) {
                    setup_k.entry = if setup_k.entry == Entry::Cli { Entry::Build } else { Entry::Cli };
                    co.count("runs_through_the_other_entry_point", 1);
                }
                let verbose_k = c.verbose[k] && setup_k.entry == Entry::Cli;
                let res = if c.via_library.get(k).copied().unwrap_or(false) {
                    co.count("runs_through_the_library_function", 1);
                    if !(c.in_place && k > 0) {
                        let _ = std::fs::remove_dir_all(w_run.out_dir(&setup_k));
                    }
                    let r = scen::run_library(env, &w_run, &setup_k, &c.cfg, c.procs[k].clone(), c.verbose[k]);
                    if r.res.status.is_ok() {
                        // the library writes the bindings only: what it does not write is taken from
                        // run 0, so that the comparison is about the bindings
                        let mut f = scen::out_files(&w_run, &setup_k);
                        for n in [".typecache", "dependency-graph.txt", "dependency-graph.dot"] {
                            match outs.first().and_then(|o| o.get(n)) {
                                Some(b) => {
                                    f.insert(n.to_string(), b.clone());
                                }
                                None => {
                                    f.remove(n);
                                }
                            }
                        }
                        Ok(f)
                    } else {
                        Err(r.res.status.short())
                    }
                } else {
                    forced_run_opt(env, &w_run, &setup_k, &c.cfg, c.procs[k].clone(), verbose_k, c.viz[k], !(c.in_place && k > 0))
                };
                if moved {
                    std::fs::rename(&w_run.root, &w.root).expect("move world back");
                }
                let met_read_error = c.procs[k].faults.iter().any(|f| matches!(f.kind, crate::interpose::FaultKind::Err(_)));
                match res {
                    Ok(f) => outs.push(f),
                    // a run that could not read a source file or list a source directory may fail;
                    // if it reports success its files are compared like everybody else's
                    Err(_) if met_read_error && k > 0 => {
                        co.count("runs_failed_by_an_injected_read_error(tolerated)", 1);
                    }
                    Err(e) => {
                        if k == 0 {
                            co.discard = Some(format!("first forced run failed: {}", e));
                        } else {
                            co.violate(
                                "C13/status".into(),
                                "every run on identical input has the same outcome",
                                format!("run 0 ok, run {} {}", k, e),
                            );
                        }
                        w.destroy();
                        return co;
                    }
                }
                co.count("processes", 1);
            }
            let mut cmd_orders = BTreeSet::new();
            let mut decl_orders = BTreeSet::new();
            for (k, o) in outs.iter().enumerate() {
                if let Some(b) = o.get("commands.ts") {
                    cmd_orders.insert(fn_order(b));
                }
                if let Some(b) = o.get("types.ts") {
                    decl_orders.insert(decl_order(b));
                }
                if k == 0 {
                    continue;
                }
                // (a library run has the record and the report of run 0 grafted on: same setting by construction)
                let viz_k = if c.via_library.get(k).copied().unwrap_or(false) { c.viz[0] } else { c.viz[k] };
                let same_viz = viz_k == c.viz[0];
                compare_files(&mut co, &outs[0], o, &format!("run 0 vs run {} (same sources, other hash keys/dir order/clock)", k), true, same_viz);
                if !same_viz {
                    // visualisation only adds its own two files
                    let (with, without) = if viz_k { (o, &outs[0]) } else { (&outs[0], o) };
                    let extra: BTreeSet<&String> = with.keys().filter(|n| !without.contains_key(*n)).collect();
                    let want: BTreeSet<String> = ["dependency-graph.dot".to_string(), "dependency-graph.txt".to_string()].into();
                    let extra_owned: BTreeSet<String> = extra.into_iter().cloned().collect();
                    if extra_owned != want || without.keys().any(|n| !with.contains_key(n)) {
                        co.violate(
                            "C13/visualisation-fileset".into(),
                            "requesting the visualisation only adds its own two files",
                            format!("with: {:?} without: {:?}", with.keys().collect::<Vec<_>>(), without.keys().collect::<Vec<_>>()),
                        );
                    }
                }
            }
            if c.real_bin && co.violations.is_empty() {
                // the same generation through the real binary, as a real OS process
                match std::path::Path::new(&real_bin()).exists() {
                    false => co.harness_error = Some(format!("{} missing: run through ./check, which builds it", real_bin())),
                    true => {
                        let mut cfg = c.cfg.clone();
                        cfg.visualize = c.viz[0];
                        cfg.flag_visualize = cfg.flag_visualize && c.viz[0];
                        w.write_config(&c.setup, &cfg);
                        let _ = std::fs::remove_dir_all(w.out_dir(&c.setup));
                        let argv = w.argv(&c.setup, &cfg, true, false);
                        let outp = std::process::Command::new(real_bin())
                            .args(&argv[1..])
                            .current_dir(w.cwd(&c.setup))
                            .output();
                        match outp {
                            Ok(o) if o.status.success() => {
                                let real = scen::out_files(&w, &c.setup);
                                let n_before = co.violations.len();
                                compare_files(&mut co, &outs[0], &real, "simulated process vs the real cargo-tauri-typegen binary (real process, real entropy, real clock)", true, true);
                                for v in co.violations.iter_mut().skip(n_before) {
                                    v.signature = format!("{}/real-process", v.signature);
                                }
                                co.count("stub_fidelity_real_binary_runs_compared", 1);
                            }
                            Ok(o) => co.violate(
                                "C13/status/real-process".into(),
                                "every run on identical input has the same outcome",
                                format!("simulated runs ok, real binary exit {:?}: {}", o.status.code(), String::from_utf8_lossy(&o.stderr).chars().take(200).collect::<String>()),
                            ),
                            Err(e) => co.harness_error = Some(format!("cannot start {}: {}", real_bin(), e)),
                        }
                    }
                }
            }
            co.count("distinct_command_orders_observed", cmd_orders.len() as u64);
            co.count("distinct_declaration_orders_observed", decl_orders.len() as u64);
            co.count("sched_worlds", 1);
            let cmd_files = c.model.files.iter().filter(|f| f.items.iter().any(|i| matches!(i, Item::Cmd(x) if x.is_command))).count();
            if cmd_files >= 2 {
                co.tags.push(format!("sched/{}cf/{}t/{}/{}/{}", cmd_files, c.model.serde_type_names().len().min(4), c.cfg.mode, c.setup.label(), flag_s));
            }
            co.reach("sched_setup_x_files", format!("{}/{}", c.setup.label(), c.model.files.len()));
        } else {
            let before = match forced_run(env, &w, &c.setup, &c.cfg, c.procs[0].clone(), c.verbose[0], c.viz[0]) {
                Ok(f) => f,
                Err(e) => {
                    co.discard = Some(format!("first forced run failed: {}", e));
                    w.destroy();
                    return co;
                }
            };
            let m2 = c.model_after.clone().unwrap_or_else(|| c.model.clone());
            w.write_sources(&m2);
            for (p, t) in c.extras_after.as_ref().unwrap_or(&c.extras) {
                w.write_extra(p, t);
            }
            let same = forced_run(env, &w, &c.setup, &c.cfg, c.procs[0].clone(), c.verbose[0], c.viz[0]);
            let other = forced_run(env, &w, &c.setup, &c.cfg, c.procs[1].clone(), c.verbose[1], c.viz[0]);
            co.count("processes", 3);
            co.count("edit_cases", 1);
            match (same, other) {
                (Ok(s), Ok(o)) => {
                    let noise = is_noise(&c.edit_kind);
                    // dependency-graph.* prints file paths and line numbers: not part of (b)
                    compare_files(&mut co, &before, &s, &format!("before vs after `{}` (same hash keys)", c.edit_kind), noise, false);
                    compare_files(&mut co, &before, &o, &format!("before vs after `{}` (other hash keys)", c.edit_kind), false, false);
                    // re-label so that edit findings are distinguishable from schedule findings
                    for v in &mut co.violations {
                        if !v.signature.contains("/edit=") {
                            v.signature = format!("{}/edit={}", v.signature, c.edit_kind);
                        }
                    }
                }
                (a, b) => {
                    co.violate(
                        format!("C13/status/edit={}", c.edit_kind),
                        "a semantics-preserving edit does not change the outcome",
                        format!("after `{}`: {:?} / {:?}", c.edit_kind, a.err(), b.err()),
                    );
                }
            }
            co.tags.push(format!("edit/{}/{}/{}", c.edit_kind, c.cfg.mode, c.setup.entry as u8));
            co.reach("edit_kinds", c.edit_kind.clone());
        }
        co.sample = Some(json!({
            "kind": c.kind,
            "setup": c.setup.label(),
            "mode": c.cfg.mode,
            "files": c.model.files.iter().map(|f| format!("{} ({} items)", f.path, f.items.len())).collect::<Vec<_>>(),
            "flags": c.flags,
            "processes": c.procs.len(),
            "viz": c.viz,
            "edit": if c.kind == "edit" { c.edit_kind.clone() } else { String::new() },
            "hash_keys": c.procs.iter().map(|p| format!("{:x}", p.hash_keys[0])).collect::<Vec<_>>(),
        }));
        w.destroy();
        co
    }

    fn shrink(&self, case: &Value, _hint: Option<&Value>) -> Vec<Value> {
        let c: Case = match serde_json::from_value(case.clone()) {
            Ok(c) => c,
            Err(_) => return vec![],
        };
        let mut out = vec![];
        if c.kind == "sched" {
            // down to the two processes that disagree
            if c.procs.len() > 2 {
                for drop in (1..c.procs.len()).rev() {
                    let mut d = c.clone();
                    d.procs.remove(drop);
                    d.verbose.remove(drop);
                    d.viz.remove(drop);
                    if drop < d.relocate.len() {
                        d.relocate.remove(drop);
                    }
                    if drop < d.other_entry.len() {
                        d.other_entry.remove(drop);
                    }
                    out.push(d);
                }
            }
            for m in crate::shrink::shrink_model(&c.model) {
                let mut d = c.clone();
                d.model = m;
                out.push(d);
            }
            if c.viz.iter().any(|v| *v) {
                let mut d = c.clone();
                d.viz.iter_mut().for_each(|v| *v = false);
                out.push(d);
            }
        }
        for k in c.cfg.mappings.keys() {
            let mut d = c.clone();
            d.cfg.mappings.remove(k);
            out.push(d);
        }
        if c.relocate.iter().any(|x| *x) {
            let mut d = c.clone();
            d.relocate.iter_mut().for_each(|x| *x = false);
            out.push(d);
        }
        for k in 0..c.procs.len() {
            if c.procs[k].chunk_seed.is_some() || !c.procs[k].clock.jumps.is_empty() || c.verbose[k] || !c.procs[k].faults.is_empty() {
                let mut d = c.clone();
                d.procs[k].faults.clear();
                d.procs[k].chunk_seed = None;
                d.procs[k].clock = Default::default();
                d.verbose[k] = false;
                out.push(d);
            }
        }
        out.into_iter().map(|d| serde_json::to_value(d).unwrap()).collect()
    }

    fn rule(&self) -> String {
        "sched cases: one generated multi-file project (2..6 files) generated by S forced simulated processes (S=6 quick, 12 thorough) that differ in hash keys, readdir permutation, clock script, write chunking, injected short reads / EINTR (a ninth of the cases), verbosity and (in a third of the worlds) visualisation on/off; every file compared byte-for-byte modulo the timestamp line. edit cases: one semantics-preserving transformation (14 kinds, incl. documentation comments and every kind of non-command/non-serde item: inline and test modules, macros, traits, aliases, imports, nested items, raw identifiers, unions, impls) then forced runs under the same and under other hash keys; noise edits compared exactly, layout edits as multisets of declarations. distinct_nontrivial counts distinct (files with commands, #types, mode, entry, special flags) classes with >=2 command files plus distinct (edit kind, mode, entry).".into()
    }
    fn assumptions(&self) -> Vec<String> {
        vec![
            "hash-order nondeterminism is sampled by seeding std's RandomState keys per simulated process; permutations are not enumerated".into(),
            "dependency-graph.* is excluded from the layout-edit comparison (it prints file paths and line numbers) but included in the across-schedule comparison".into(),
            ".typecache is excluded here (judged by C14)".into(),
        ]
    }
}

#[allow(dead_code)]
fn unused(_: ConfSrc) {}
