//! C09 — in Zod mode no schema constant is read before it is defined
//! (acyclic type graphs, every constructor context, every hash order).

use crate::canon;
use crate::harness::{CaseOut, Check, Env, Tier};
use crate::interpose::ProcSpec;
use crate::model::{Chan, Command, Emit, EnumDef, Field, Item, Model, Namer, Param, Payload, SrcFile, StructDef, Ty, Variant, PRIMS};
use crate::rng::Rng;
use crate::scen::{self, gen_proc};
use crate::world::{Cfg, Entry, Setup};
use serde::{Deserialize, Serialize};
use serde_json::{json, Value};
use std::collections::{BTreeMap, BTreeSet};

pub struct C09;

#[derive(Clone, Debug, Serialize, Deserialize)]
struct Case {
    model: Model,
    cfg: Cfg,
    setup: Setup,
    procs: Vec<ProcSpec>,
    /// ground truth: (dependent, dependency, constructor context)
    edges: Vec<(String, String, String)>,
    shape: String,
    /// second phase: a field is added that makes an existing type depend on another
    /// existing type, and the project is regenerated over the previous output
    #[serde(default)]
    add_edge: Option<(String, String, Ty)>,
    /// all runs but the first go through the library instead of an entry point, the way a
    /// long-lived caller (a watcher) would use it: one CommandAnalyzer analyses the project
    /// twice and the bindings are generated from the second analysis
    #[serde(default)]
    library_twice: bool,
    /// types the project defines outside the model (raw source text): a schema constant named
    /// after one of them that is read but never defined is judged like any other
    #[serde(default)]
    extra_types: Vec<String>,
}

/// The public API used by a caller that keeps its analyzer: mirror of generate_from_config,
/// with the project analysed twice by the same CommandAnalyzer.
fn library_twice(project: &str, out: &str, mappings: &BTreeMap<String, String>) -> Result<(), String> {
    use tauri_typegen::analysis::CommandAnalyzer;
    use tauri_typegen::generators::create_generator;
    let mut config = tauri_typegen::GenerateConfig { project_path: project.to_string(), output_path: out.to_string(), validation_library: "zod".to_string(), ..Default::default() };
    if !mappings.is_empty() {
        config.type_mappings = Some(mappings.iter().map(|(k, v)| (k.clone(), v.clone())).collect());
    }
    config.validate().map_err(|e| format!("config: {}", e))?;
    let mut analyzer = CommandAnalyzer::new();
    if let Some(m) = &config.type_mappings {
        analyzer.add_type_mappings(m);
    }
    let _first = analyzer.analyze_project(project).map_err(|e| format!("first analysis: {}", e))?;
    let commands = analyzer.analyze_project(project).map_err(|e| format!("second analysis: {}", e))?;
    let mut generator = create_generator(Some("zod".to_string()));
    generator
        .generate_models(&commands, analyzer.get_discovered_structs(), out, &analyzer, &config)
        .map_err(|e| format!("generate: {}", e))?;
    Ok(())
}

fn prim(r: &mut Rng) -> Ty {
    Ty::Prim(r.pick(PRIMS).to_string())
}
fn s() -> Box<Ty> {
    Box::new(Ty::Prim("String".into()))
}

pub const N_CONTEXTS: usize = 24;

/// The k-th constructor context around `t`.
pub fn context(k: usize, t: Ty, r: &mut Rng) -> Ty {
    let b = Box::new;
    match k {
        0 => t,
        1 => Ty::Opt(b(t)),
        2 => Ty::Vec(b(t)),
        3 => Ty::HSet(b(t)),
        4 => Ty::BSet(b(t)),
        5 => Ty::HMap(s(), b(t)),
        6 => Ty::BMap(s(), b(t)),
        7 => Ty::Opt(b(Ty::Vec(b(t)))),
        8 => Ty::Vec(b(Ty::Opt(b(t)))),
        9 => Ty::HMap(s(), b(Ty::Vec(b(t)))),
        10 => Ty::Tup(vec![t, prim(r)]),
        11 => Ty::Tup(vec![prim(r), t]),
        12 => Ty::Tup(vec![prim(r), prim(r), t]),
        13 => Ty::Tup(vec![prim(r), prim(r), prim(r), t]),
        14 => Ty::Vec(b(Ty::Tup(vec![t, prim(r)]))),
        15 => Ty::Opt(b(Ty::Tup(vec![Ty::Prim("String".into()), t]))),
        16 => Ty::HMap(b(t), b(prim(r))),
        17 => Ty::HMap(s(), b(Ty::HMap(s(), b(t)))),
        18 => Ty::Vec(b(Ty::Vec(b(t)))),
        19 => Ty::Opt(b(Ty::HMap(s(), b(Ty::Opt(b(t)))))),
        // contexts the translator is known to garble (counted, not judged when no schema token appears)
        20 => Ty::Tup(vec![Ty::HMap(s(), b(t)), prim(r)]),
        21 => Ty::HMap(b(Ty::Tup(vec![prim(r), t])), s()),
        22 => Ty::Gen("Box".into(), vec![t]),
        _ => Ty::Arr(b(t), 3),
    }
}

fn gen_dag(r: &mut Rng, n: usize, shape: &str) -> Vec<(usize, usize)> {
    // node i may depend on j < i  (index order is a topological order; names are random)
    let mut e = vec![];
    match shape {
        "chain" => {
            for i in 1..n {
                e.push((i, i - 1));
            }
        }
        "fan_out" => {
            for i in 0..n - 1 {
                e.push((n - 1, i));
            }
        }
        "shared_leaf" => {
            for i in 1..n {
                e.push((i, 0));
            }
        }
        "diamond" => {
            if n >= 4 {
                e.extend([(1, 0), (2, 0), (3, 1), (3, 2)]);
                for i in 4..n {
                    e.push((i, r.below(i as u64) as usize));
                }
            } else {
                for i in 1..n {
                    e.push((i, i - 1));
                }
            }
        }
        _ => {
            let dens = *r.pick(&[25u64, 50, 80]);
            for i in 1..n {
                for j in 0..i {
                    if r.chance(dens, 100) {
                        e.push((i, j));
                    }
                }
            }
        }
    }
    e
}

const SHAPES: &[&str] = &["chain", "fan_out", "shared_leaf", "diamond", "random", "random"];
const FILES: &[&str] = &["src/main.rs", "src/models/a.rs", "src/models/b.rs", "src/cmds.rs"];

impl Check for C09 {
    fn id(&self) -> &'static str {
        "C09"
    }
    fn name(&self) -> &'static str {
        "zod-order"
    }
    fn level(&self) -> &'static str {
        "exploration"
    }
    fn cases(&self, tier: Tier) -> u64 {
        match tier {
            Tier::Quick => 480,
            Tier::Thorough => 24000,
        }
    }
    fn gen(&self, seed: u64, i: u64, tier: Tier) -> Value {
        let mut r = Rng::new(crate::harness::case_seed(seed, "C09", i));
        // every 17th world is one long chain of 14..18 types (deeper than any small constant)
        let long_chain = i % 17 == 9;
        let shape = if long_chain { "chain" } else { SHAPES[(i % SHAPES.len() as u64) as usize] };
        let n = if long_chain { 14 + ((i / 17) % 5) as usize } else { 2 + ((i / SHAPES.len() as u64) % 5) as usize }; // 2..6
        let mut nm = Namer::new();
        let mut names: Vec<String> = (0..n).map(|_| nm.fresh(&mut r, "type")).collect();
        // names that extend one another (User / UserProfile) must occur in both roles
        r.shuffle(&mut names);
        // identifiers need not be ASCII: a tenth of the projects name one or two types in a script
        // without letter case (legal since Rust 1.53), alone or in front of an ASCII tail
        if i % 10 == 7 {
            let mut ur = r.split("scripts");
            for _ in 0..ur.range(1, 2) {
                let k = ur.below(n as u64) as usize;
                let word = *ur.pick(&["顧客", "注文", "データ", "שלום", "مرحبا", "ご注文", "用户", "값"]);
                names[k] = if ur.chance(1, 2) { format!("{}{}", word, k) } else { format!("{}{}", word, names[k]) };
            }
        }
        let dag = gen_dag(&mut r, n, shape);
        let wild = r.chance(1, 5);
        // types
        let mut items: Vec<Item> = vec![];
        let mut edges = vec![];
        let is_enum: Vec<bool> = (0..n).map(|k| !dag.iter().any(|e| e.0 == k) && r.chance(1, 4)).collect();
        // some inner nodes are enums whose variants CARRY their dependencies (`Variant(Dep)`); the
        // pinned tool renders such an enum as a plain list of literals, so these edges are not part
        // of the ground truth - a tool that starts rendering payload schemas has to order them too
        let mut pe = r.split("payload-enums");
        let payload_enum: Vec<bool> = (0..n).map(|k| !is_enum[k] && dag.iter().any(|e| e.0 == k) && i % 5 == 2 && pe.chance(1, 2)).collect();
        for k in 0..n {
            if payload_enum[k] {
                let mut variants: Vec<Variant> = dag
                    .iter()
                    .filter(|e| e.0 == k)
                    .map(|e| Variant {
                        name: nm.fresh(&mut pe, "variant"),
                        rename: None,
                        payload: Some(match pe.below(3) {
                            0 => Ty::Named(names[e.1].clone()),
                            1 => Ty::Vec(Box::new(Ty::Named(names[e.1].clone()))),
                            _ => Ty::Opt(Box::new(Ty::Named(names[e.1].clone()))),
                        }),
                    })
                    .collect();
                variants.push(Variant { name: nm.fresh(&mut pe, "variant"), rename: None, payload: None });
                items.push(Item::Enum(EnumDef { name: names[k].clone(), variants, rename_all: None }));
                continue;
            }
            if is_enum[k] {
                items.push(Item::Enum(EnumDef {
                    name: names[k].clone(),
                    variants: (0..r.range(1, 3)).map(|_| Variant { name: nm.fresh(&mut r, "variant"), rename: None, payload: None }).collect(),
                    rename_all: None,
                }));
                continue;
            }
            let mut fields = vec![];
            let mut deps: Vec<usize> = dag.iter().filter(|e| e.0 == k).map(|e| e.1).collect();
            r.shuffle(&mut deps);
            for d in deps {
                // the context index is stratified over cases so that every context is met
                let ctx_k = if wild {
                    r.below(N_CONTEXTS as u64) as usize
                } else {
                    ((i as usize) + fields.len() * 7 + d) % 20
                };
                let ty = context(ctx_k, Ty::Named(names[d].clone()), &mut r);
                edges.push((names[k].clone(), names[d].clone(), ty.context_label()));
                fields.push(Field { name: nm.fresh(&mut r, "field"), ty, public: true, rename: None, skip: false, validate: None });
            }
            for _ in 0..r.range(0, 2) {
                let ty = prim(&mut r);
                fields.push(Field { name: nm.fresh(&mut r, "field"), ty, public: true, rename: None, skip: false, validate: None });
            }
            if fields.is_empty() {
                fields.push(Field { name: nm.fresh(&mut r, "field"), ty: prim(&mut r), public: true, rename: None, skip: false, validate: None });
            }
            // a seventh of the projects have leaf types WITHOUT any serialised field (`struct Marker {}`):
            // they are types like any other and the types that mention them read their schema
            if i % 7 == 5 && !dag.iter().any(|e| e.0 == k) {
                fields.clear();
            }
            r.shuffle(&mut fields);
            items.push(Item::Struct(StructDef { name: names[k].clone(), fields, rename_all: None, serde: true, qualified_derive: r.chance(1, 6) }));
        }
        // isolated decoy type
        if r.chance(1, 3) {
            items.push(Item::Struct(StructDef {
                name: nm.fresh(&mut r, "type"),
                fields: vec![Field { name: nm.fresh(&mut r, "field"), ty: prim(&mut r), public: true, rename: None, skip: false, validate: None }],
                rename_all: None,
                serde: true,
                qualified_derive: false,
            }));
        }
        // roots (no incoming edge) must be referenced from the public surface; some inner types too
        let mut referenced: Vec<usize> = (0..n).filter(|k| !dag.iter().any(|e| e.1 == *k)).collect();
        for k in 0..n {
            if !referenced.contains(&k) && r.chance(1, 3) {
                referenced.push(k);
            }
        }
        for (ri, k) in referenced.iter().enumerate() {
            let t = Ty::Named(names[*k].clone());
            let how = (i as usize + ri) % 4;
            let mut c = Command {
                name: nm.fresh(&mut r, "cmd"),
                params: vec![],
                chans: vec![],
                ret: None,
                is_async: r.chance(1, 2),
                short_attr: false,
                emits: vec![],
                is_command: true,
            };
            match how {
                0 => c.params.push(Param { name: nm.fresh(&mut r, "field"), ty: context(r.below(10) as usize, t, &mut r) }),
                1 => {
                    // the error side of the Result is a project type of its own in a third of the
                    // cases: analysed, never emitted, and it mentions some of the other types
                    let mut xr = r.split("error-type");
                    let err = if (i / 5) % 3 == 1 {
                        let ename = nm.fresh(&mut xr, "type");
                        let mut fields = vec![Field { name: nm.fresh(&mut xr, "field"), ty: Ty::Prim("String".into()), public: true, rename: None, skip: false, validate: None }];
                        for _ in 0..xr.range(1, 2) {
                            let d = xr.below(n as u64) as usize;
                            fields.push(Field { name: nm.fresh(&mut xr, "field"), ty: Ty::Named(names[d].clone()), public: true, rename: None, skip: false, validate: None });
                        }
                        items.push(Item::Struct(StructDef { name: ename.clone(), fields, rename_all: None, serde: true, qualified_derive: false }));
                        ename
                    } else {
                        "String".to_string()
                    };
                    c.ret = Some(Ty::Res(Box::new(context(r.below(10) as usize, t, &mut r)), err));
                }
                2 => c.chans.push(Chan { name: nm.fresh(&mut r, "field"), msg: t, rename: None }),
                _ => {
                    c.params.push(Param { name: nm.fresh(&mut r, "field"), ty: prim(&mut r) });
                    c.emits.push(Emit { event: nm.fresh(&mut r, "event"), payload: Payload::Lit(names[*k].clone()), emit_to: false });
                }
            }
            items.push(Item::Cmd(c));
        }
        // a serde struct holding a runtime handle of a NON-serde type behind `#[serde(skip)]`, with
        // further serde attributes on the same field in attributes of their own (every thirteenth world)
        let mut extra_types: Vec<String> = vec![];
        if i % 13 == 6 {
            let mut hr = r.split("skipped-handle");
            let n = hr.range(1, 9999);
            let second = *hr.pick(&["#[serde(default)]", "#[serde(default = \"fresh_handle\")]", "#[serde(rename = \"h\")]"]);
            items.push(Item::Raw(format!(
                "pub struct ConnHandle{n} {{\n    pub fd: i32,\n}}\n\n#[derive(Debug, Clone, Serialize, Deserialize)]\npub struct Session{n} {{\n    pub id: u32,\n    #[serde(skip)]\n    {second}\n    pub handle: ConnHandle{n},\n    #[serde(default)]\n    #[serde(skip_serializing_if = \"Option::is_none\")]\n    pub note: Option<String>,\n}}\n\n#[tauri::command]\npub fn open_session_{n}(session: Session{n}) -> u32 {{\n    session.id\n}}\n",
                n = n,
                second = second
            )));
            extra_types.push(format!("ConnHandle{}", n));
            extra_types.push(format!("Session{}", n));
        }
        r.shuffle(&mut items);
        let nf = r.range(1, 4);
        let mut files: Vec<SrcFile> = FILES[..nf].iter().map(|p| SrcFile { path: p.to_string(), items: vec![] }).collect();
        for it in items {
            let k = r.below(nf as u64) as usize;
            files[k].items.push(it);
        }
        // file and directory names that merely START like the ones a scan skips (target/, .git/)
        if i % 11 == 4 {
            let mut fr = r.split("file-names");
            let k = fr.below(nf as u64) as usize;
            files[k].path = fr.pick(&["src/targets.rs", "src/target_kinds/mod.rs", "src/targeting/rules.rs", "src/.github_sync/hooks.rs", "src/targetless.rs"]).to_string();
        }
        // a new edge between two existing types (index order is a topological order, so
        // "higher depends on lower" keeps the graph acyclic)
        let mut add_edge = None;
        if (i / 6) % 3 == 1 {
            let mut cands = vec![];
            for a in 1..n {
                for b in 0..a {
                    if !is_enum[a] && !dag.iter().any(|e| e.0 == a && e.1 == b) {
                        cands.push((a, b));
                    }
                }
            }
            if !cands.is_empty() {
                let (a, b) = *r.pick(&cands);
                let ty = context(r.below(20) as usize, Ty::Named(names[b].clone()), &mut r);
                add_edge = Some((names[a].clone(), names[b].clone(), ty));
            }
        }
        // type mappings whose keys are near-misses of project type names (generic
        // instantiations having a project type as prefix): they must not touch anything
        let mut cfg = Cfg::plain("zod");
        if (i / 6) % 4 == 2 {
            for _ in 0..r.range(1, 2) {
                let t = r.pick(&names).clone();
                let key = match r.below(4) {
                    0 => format!("{}Time<Utc>", t),
                    1 => format!("{}<T>", t),
                    2 => format!("{}s", t),
                    _ => format!("Vec<{}X>", t),
                };
                cfg.mappings.insert(key, "string".into());
            }
            cfg.mappings.insert("DateTime<Utc>".into(), "string".into());
        }
        // a type mapping whose TARGET is a type of the project itself (`OwnerRef` -> `Owner`, for a
        // foreign wrapper or alias): however the mapped type is rendered, nothing may be read early
        if (i / 6) % 4 == 3 && n >= 2 {
            let mut ar = r.split("alias-mapping");
            let holder = ar.range(1, n - 1);
            let target = ar.below(holder as u64) as usize;
            let alias = format!("{}Ref", names[target]);
            for f in files.iter_mut() {
                for it in f.items.iter_mut() {
                    if let Item::Struct(sd) = it {
                        if sd.name == names[holder] {
                            sd.fields.push(Field { name: "mapped_alias_field".into(), ty: Ty::Named(alias.clone()), public: true, rename: None, skip: false, validate: None });
                        }
                    }
                }
            }
            cfg.mappings.insert(alias, names[target].clone());
        }
        let setups = [Setup::default_cli(), Setup { entry: Entry::Build, cwd: crate::world::Cwd::SrcTauri, ..Setup::default_cli() }];
        let setup = setups[(i % 7 == 0) as usize].clone();
        let s_runs = if tier == Tier::Thorough { 6 } else { 3 };
        let mut pr = r.split("procs");
        let procs = (0..s_runs).map(|_| gen_proc(&mut pr)).collect();
        let library_twice = i % 8 == 3;
        serde_json::to_value(Case { model: Model { files }, cfg, setup, procs, edges, shape: shape.into(), add_edge, library_twice, extra_types }).unwrap()
    }

    fn exec(&self, env: &mut Env, case: &Value) -> CaseOut {
        let mut co = CaseOut::default();
        let c: Case = match serde_json::from_value(case.clone()) {
            Ok(c) => c,
            Err(e) => {
                co.harness_error = Some(format!("bad case: {}", e));
                return co;
            }
        };
        let w = scen::materialise(env, &c.model, &c.cfg, &c.setup);
        let type_names: BTreeSet<String> = c.model.serde_type_names().into_iter().collect();
        // only edges that still exist in the (possibly shrunk) model
        let live_edges: BTreeSet<(String, String)> = c.model.type_edges();
        let mut orders: BTreeSet<String> = BTreeSet::new();
        // phase 2 (optional): one more run after the edge-adding edit, over the previous output
        let mut model2 = c.model.clone();
        let mut phase2 = false;
        if let Some((a, b, ty)) = &c.add_edge {
            if let Some(s) = model2.struct_mut(a) {
                if c.model.serde_type_names().contains(b) {
                    s.fields.push(Field { name: "added_link_field".into(), ty: ty.clone(), public: true, rename: None, skip: false, validate: None });
                    phase2 = true;
                }
            }
        }
        let mut run_specs: Vec<(ProcSpec, bool)> = c.procs.iter().map(|p| (p.clone(), false)).collect();
        if phase2 && !c.procs.is_empty() {
            let mut p = c.procs[0].clone();
            p.hash_keys = [p.hash_keys[1] ^ 0x1234, p.hash_keys[0].rotate_left(9)];
            run_specs.push((p, true));
        }
        let live_edges2: BTreeSet<(String, String)> = model2.type_edges();
        for (k, (p, is_phase2)) in run_specs.iter().enumerate() {
            let out = w.out_dir(&c.setup);
            if *is_phase2 {
                w.write_sources(&model2);
                co.count("regenerations_over_previous_output_after_new_edge", 1);
            } else {
                let _ = std::fs::remove_dir_all(&out);
            }
            let live_edges = if *is_phase2 { &live_edges2 } else { &live_edges };
            let mut cfg = c.cfg.clone();
            let mut flag = false;
            match c.setup.entry {
                Entry::Cli => flag = true,
                Entry::Build => cfg.force = Some(true),
            }
            if k == 0 {
                w.write_config(&c.setup, &cfg);
            }
            let r = if c.library_twice && k >= 1 && !*is_phase2 {
                let project = w.src_tauri().to_string_lossy().into_owned();
                let outp = out.to_string_lossy().into_owned();
                let mappings = cfg.mappings.clone();
                co.count("runs_through_the_library_with_a_reused_analyzer", 1);
                env.run(&w, &w.cwd(&c.setup), p.clone(), crate::process::Call::Func(Box::new(move || library_twice(&project, &outp, &mappings))))
            } else {
                scen::run_tool(env, &w, &c.setup, &cfg, p.clone(), flag, false)
            };
            co.count("processes", 1);
            if !r.res.status.is_ok() {
                if k == 0 {
                    co.discard = Some(format!("generation failed: {}", r.res.status.short()));
                } else {
                    co.violate("C09/status".into(), "generation succeeds under every hash order", r.res.status.short());
                }
                break;
            }
            let files = scen::out_files(&w, &c.setup);
            let Some(tb) = files.get("types.ts") else {
                co.discard = Some("no types.ts".into());
                break;
            };
            let text = canon::strip_ts(tb);
            let seq = canon::schema_sequence(&text);
            orders.insert(seq.iter().map(|x| x.0.clone()).collect::<Vec<_>>().join(","));
            let defined: BTreeMap<&str, usize> = seq.iter().enumerate().map(|(i, x)| (x.0.as_str(), i)).collect();
            let mut last_type_schema: Option<usize> = None;
            let mut first_param_schema: Option<(usize, String)> = None;
            for (pos, (name, refs)) in seq.iter().enumerate() {
                let base = name.trim_end_matches("Schema");
                if type_names.contains(base) {
                    last_type_schema = Some(pos);
                } else if name.ends_with("ParamsSchema") && first_param_schema.is_none() {
                    first_param_schema = Some((pos, name.clone()));
                }
                for m in refs {
                    if m == name {
                        continue;
                    }
                    match defined.get(m.as_str()) {
                        None => {
                            // read, and defined nowhere: evaluating the module throws. Judged when the
                            // name is a serde type of THIS project (ground truth from the model); a
                            // token the translator garbled, or a type the project does not define,
                            // is somebody else's business (C05 / C07)
                            let mb = m.trim_end_matches("Schema");
                            let mut live_types: BTreeSet<String> = if *is_phase2 { model2.serde_type_names() } else { c.model.serde_type_names() }.into_iter().collect();
                            live_types.extend(c.extra_types.iter().cloned());
                            if live_types.contains(mb) {
                                co.violate(
                                    "C09/read-never-defined".into(),
                                    "no schema constant is read before its definition (this one is defined nowhere)",
                                    format!("{} reads {} but the file never defines it; order: {}", name, m, seq.iter().map(|x| x.0.as_str()).collect::<Vec<_>>().join(" ")),
                                );
                            } else {
                                co.count("refs_to_names_the_project_does_not_define(not judged)", 1);
                            }
                        }
                        Some(&dpos) => {
                            co.count("schema_references_checked", 1);
                            if dpos > pos {
                                let mb = m.trim_end_matches("Schema");
                                let ctx = c
                                    .edges
                                    .iter()
                                    .find(|e| e.0 == base && e.1 == mb)
                                    .map(|e| e.2.clone())
                                    .or_else(|| c.add_edge.as_ref().filter(|e| e.0 == base && e.1 == mb).map(|e| format!("added later: {}", e.2.context_label())))
                                    .unwrap_or_else(|| "param".into());
                                let kind = if name.ends_with("ParamsSchema") { "param-before-type" } else { "use-before-def" };
                                co.violate(
                                    format!("C09/{}", kind),
                                    "each schema comes after the schemas of every type it mentions",
                                    format!("{} (position {}) reads {} which is defined at position {}; context {}; order: {}", name, pos, m, dpos, ctx, seq.iter().map(|x| x.0.as_str()).collect::<Vec<_>>().join(" ")),
                                );
                            }
                        }
                    }
                }
            }
            if let (Some(l), Some((f, fname))) = (last_type_schema, &first_param_schema) {
                if *f < l {
                    co.violate(
                        "C09/param-before-type".into(),
                        "command parameter schemas come after all struct and enum schemas",
                        format!("{} at position {} precedes a type schema at position {}", fname, f, l),
                    );
                }
            }
            if k == 0 {
                // reach: which ground-truth edges were rendered as a schema reference, and in which name orientation
                for (u, v) in live_edges.iter() {
                    let rendered = seq.iter().any(|(n, refs)| n == &format!("{}Schema", u) && refs.contains(&format!("{}Schema", v)));
                    let ctx = c.edges.iter().find(|e| &e.0 == u && &e.1 == v).map(|e| e.2.clone()).unwrap_or_default();
                    if rendered {
                        co.count("edges_rendered_as_schema_reference", 1);
                        co.reach("contexts_rendered", ctx.clone());
                        if v > u {
                            co.count("edges_with_dependency_sorting_after_dependent", 1);
                            co.reach("contexts_rendered_in_dangerous_name_order", ctx);
                        }
                    } else {
                        co.count("garbled_or_unrendered_edges(not judged: translation, C05)", 1);
                        co.reach("contexts_not_rendered", ctx);
                    }
                }
            }
        }
        co.count("distinct_schema_orders_across_keys", orders.len() as u64);
        // distinct DAG shape x contexts
        let mut shape_key: Vec<String> = c.edges.iter().map(|e| e.2.clone()).collect();
        shape_key.sort();
        if !live_edges.is_empty() {
            co.tags.push(format!("{}/{}/{}", c.shape, type_names.len(), shape_key.join("+")));
        }
        co.sample = Some(json!({
            "shape": c.shape,
            "types": type_names,
            "edges": c.edges,
            "files": c.model.files.iter().map(|f| f.path.clone()).collect::<Vec<_>>(),
            "hash_key_variants": c.procs.len(),
            "schema_orders_seen": orders,
        }));
        w.destroy();
        co
    }

    fn shrink(&self, case: &Value, _hint: Option<&Value>) -> Vec<Value> {
        let c: Case = match serde_json::from_value(case.clone()) {
            Ok(c) => c,
            Err(_) => return vec![],
        };
        let mut out = vec![];
        if c.procs.len() > 1 {
            for k in (0..c.procs.len()).rev() {
                let mut d = c.clone();
                d.procs.remove(k);
                out.push(d);
            }
        }
        for m in crate::shrink::shrink_model(&c.model) {
            let mut d = c.clone();
            d.model = m;
            out.push(d);
        }
        out.into_iter().map(|d| serde_json::to_value(d).unwrap()).collect()
    }

    fn rule(&self) -> String {
        "case = zod-mode project whose serde types form a DAG on 2..6 types (chain, fan-out, shared leaf, diamond, random; stratified), every edge realised through one of 24 constructor contexts (20 tame, stratified; 4 the translator garbles, sampled), types scattered over 1..4 files with random names (a tenth of the projects with names in scripts without letter case) (so name order vs dependency order varies), roots referenced from parameters / returns / channels / event payloads; generated by 3 (quick) / 6 (thorough) simulated processes with different hash keys and directory orders. Oracle: lexical declaration-before-use over `export const XSchema =` statements, judged only for schema identifiers that are defined somewhere in the file. distinct_nontrivial = distinct (shape, #types, multiset of edge contexts) with at least one edge.".into()
    }
    fn assumptions(&self) -> Vec<String> {
        vec![
            "a referenced schema that is defined nowhere, or an edge whose translation contains no `<T>Schema` token, is counted but not judged (closure / translation are C02, C05, C07, not claimed)".into(),
            "module evaluation is approximated lexically: top-level `export const` right-hand sides are evaluated eagerly (true for z.object/z.enum expressions; no z.lazy is emitted)".into(),
            "DAG shapes up to 4 nodes are sampled and stratified, not enumerated".into(),
        ]
    }
}
