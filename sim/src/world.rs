//! The world: a directory tree on tmpfs holding one Tauri application, its
//! configuration, the output directory and sentinels beside the project.

use crate::model::Model;
use crate::rng::fnv;
use serde::{Deserialize, Serialize};
use std::collections::BTreeMap;
use std::fs;
use std::os::unix::fs::PermissionsExt;
use std::path::{Path, PathBuf};

#[derive(Clone, Copy, Debug, PartialEq, Eq, PartialOrd, Ord, Serialize, Deserialize)]
pub enum Entry {
    Cli,
    Build,
}
#[derive(Clone, Copy, Debug, PartialEq, Eq, PartialOrd, Ord, Serialize, Deserialize)]
pub enum Cwd {
    App,
    SrcTauri,
    /// a workspace member below src-tauri (app/src-tauri/crates/member): the
    /// tauri.conf.json is found one or two levels up
    Member,
    /// a directory directly below src-tauri (app/src-tauri/sub): the CLI finds the
    /// configuration as `../tauri.conf.json`
    Sub,
}
#[derive(Clone, Copy, Debug, PartialEq, Eq, PartialOrd, Ord, Serialize, Deserialize)]
pub enum ConfSrc {
    /// plugins.typegen in src-tauri/tauri.conf.json
    Tauri,
    /// typegen.json in the working directory (CLI: passed with -c)
    Standalone,
    /// CLI flags only
    Flags,
}
#[derive(Clone, Copy, Debug, PartialEq, Eq, PartialOrd, Ord, Serialize, Deserialize)]
pub enum OutStyle {
    Plain,
    TrailingSlash,
    DotDot,
    Absolute,
    NoDotSlash,
}

#[derive(Clone, Debug, Serialize, Deserialize)]
pub struct Setup {
    pub entry: Entry,
    pub cwd: Cwd,
    pub conf: ConfSrc,
    /// output directory relative to the world root, e.g. "app/src/generated"
    pub out: String,
    pub out_style: OutStyle,
    /// how the project path is spelled (0 plain `./src-tauri`, 1 no leading `./`,
    /// 2 trailing slash, 3 through `..`)
    #[serde(default)]
    pub proj_style: u8,
}

impl Setup {
    pub fn default_cli() -> Setup {
        Setup {
            entry: Entry::Cli,
            cwd: Cwd::App,
            conf: ConfSrc::Tauri,
            out: "app/src/generated".into(),
            out_style: OutStyle::Plain,
            proj_style: 0,
        }
    }
    pub fn label(&self) -> String {
        format!("{:?}/{:?}/{:?}", self.entry, self.cwd, self.conf)
    }
    /// valid combinations
    pub fn all_basic() -> Vec<Setup> {
        let mut v = vec![];
        for (entry, cwd, conf) in [
            (Entry::Cli, Cwd::App, ConfSrc::Tauri),
            (Entry::Cli, Cwd::SrcTauri, ConfSrc::Tauri),
            (Entry::Cli, Cwd::App, ConfSrc::Standalone),
            (Entry::Cli, Cwd::App, ConfSrc::Flags),
            (Entry::Cli, Cwd::SrcTauri, ConfSrc::Flags),
            (Entry::Build, Cwd::SrcTauri, ConfSrc::Tauri),
            (Entry::Build, Cwd::SrcTauri, ConfSrc::Standalone),
            (Entry::Build, Cwd::App, ConfSrc::Standalone),
        ] {
            v.push(Setup {
                entry,
                cwd,
                conf,
                out: "app/src/generated".into(),
                out_style: OutStyle::Plain,
                proj_style: 0,
            });
        }
        v
    }
    /// the basic combinations plus the rarer working directories
    pub fn all_extended() -> Vec<Setup> {
        let mut v = Setup::all_basic();
        for (entry, cwd, conf) in [
            (Entry::Build, Cwd::Member, ConfSrc::Tauri),
            (Entry::Cli, Cwd::Member, ConfSrc::Flags),
            (Entry::Cli, Cwd::Member, ConfSrc::Standalone),
            (Entry::Cli, Cwd::Sub, ConfSrc::Tauri),
            (Entry::Build, Cwd::Sub, ConfSrc::Tauri),
        ] {
            v.push(Setup {
                entry,
                cwd,
                conf,
                out: "app/src/generated".into(),
                out_style: OutStyle::Plain,
                proj_style: 0,
            });
        }
        v
    }
}

/// Tool configuration as the user would write it.
#[derive(Clone, Debug, PartialEq, Serialize, Deserialize)]
pub struct Cfg {
    pub mode: String,
    pub mappings: BTreeMap<String, String>,
    pub visualize: bool,
    pub include_private: Option<bool>,
    pub force: Option<bool>,
    /// only honoured by the standalone file format
    pub param_case: Option<String>,
    pub field_case: Option<String>,
    /// CLI only: the configuration *file* names this library while `-v <mode>` on
    /// the command line overrides it (`mode` is always the effective one)
    #[serde(default)]
    pub file_mode: Option<String>,
    /// CLI only: the file says no visualisation, `--visualize-deps` turns it on
    /// (`visualize` is always the effective setting)
    #[serde(default)]
    pub flag_visualize: bool,
    /// CLI only: the configuration file names this other output directory (relative
    /// to the world root) while `-o <out>` on the command line overrides it
    #[serde(default)]
    pub file_out: Option<String>,
    /// Tauri's platform-specific configuration files (tauri.linux.conf.json, tauri.macos.conf.json,
    /// tauri.windows.conf.json) lie next to tauri.conf.json; they carry no typegen section and
    /// are none of the tool's business
    #[serde(default)]
    pub platform_confs: bool,
}

impl Cfg {
    pub fn plain(mode: &str) -> Cfg {
        Cfg {
            mode: mode.into(),
            mappings: BTreeMap::new(),
            visualize: false,
            include_private: None,
            force: None,
            param_case: None,
            field_case: None,
            file_mode: None,
            flag_visualize: false,
            file_out: None,
            platform_confs: false,
        }
    }
    fn mode_in_file(&self) -> String {
        self.file_mode.clone().unwrap_or_else(|| self.mode.clone())
    }
    fn visualize_in_file(&self) -> bool {
        self.visualize && !self.flag_visualize
    }
}

#[derive(Clone, Debug, PartialEq, Eq, Serialize, Deserialize)]
pub enum Node {
    File(Vec<u8>),
    Dir,
    Symlink(String),
}

pub type Snapshot = BTreeMap<String, Node>;

thread_local! {
    /// problems of the workload generator (not of the tool): reported as harness errors
    pub static GENERATOR_ERRORS: std::cell::RefCell<Vec<String>> = const { std::cell::RefCell::new(Vec::new()) };
}

#[derive(Clone, Debug)]
pub struct World {
    pub root: PathBuf,
}

const BASE_TAURI_CONF: &str = r#"{
  "$schema": "https://schema.tauri.app/config/2",
  "productName": "sim-app",
  "version": "0.1.0",
  "identifier": "com.sim.app",
  "build": { "frontendDist": "../dist", "beforeDevCommand": "npm run dev" },
  "app": { "windows": [ { "title": "sim", "width": 800, "height": 600 } ], "security": { "csp": null } },
  "bundle": { "active": true, "targets": "all", "icon": ["icons/32x32.png"] },
  "plugins": { "shell": { "open": true } }
}"#;

impl World {
    pub fn create(root: &Path) -> World {
        let _ = fs::remove_dir_all(root);
        fs::create_dir_all(root.join("app/src-tauri/src")).expect("create world");
        fs::create_dir_all(root.join("app/src")).unwrap();
        fs::create_dir_all(root.join("outside")).unwrap();
        fs::write(root.join("outside/sentinel.txt"), "sentinel beside the project\n").unwrap();
        fs::write(root.join("outside/types.ts"), "// not yours\n").unwrap();
        fs::write(root.join("app/package.json"), "{ \"name\": \"sim-app\" }\n").unwrap();
        fs::write(root.join("app/src/main.ts"), "console.log('frontend');\n").unwrap();
        fs::write(root.join("app/src-tauri/Cargo.toml"), "[package]\nname = \"sim-app\"\n").unwrap();
        fs::write(root.join("app/src-tauri/build.rs"), "fn main() {\n    tauri_build::build()\n}\n").unwrap();
        fs::write(root.join("app/src-tauri/tauri.conf.json"), BASE_TAURI_CONF).unwrap();
        World { root: root.to_path_buf() }
    }
    pub fn destroy(&self) {
        let _ = fs::remove_dir_all(&self.root);
    }
    pub fn app(&self) -> PathBuf {
        self.root.join("app")
    }
    pub fn src_tauri(&self) -> PathBuf {
        self.root.join("app/src-tauri")
    }
    pub fn cwd(&self, s: &Setup) -> PathBuf {
        match s.cwd {
            Cwd::App => self.app(),
            Cwd::SrcTauri => self.src_tauri(),
            Cwd::Member => {
                let p = self.src_tauri().join("crates/member");
                let _ = fs::create_dir_all(&p);
                p
            }
            Cwd::Sub => {
                let p = self.src_tauri().join("sub");
                let _ = fs::create_dir_all(&p);
                p
            }
        }
    }
    pub fn out_dir(&self, s: &Setup) -> PathBuf {
        self.root.join(&s.out)
    }

    /// Bring src-tauri/src in line with the model the way an editor would: only
    /// files whose text changed are rewritten, files the model no longer has are
    /// deleted, everything else (and its mtime) is left alone.
    pub fn write_sources(&self, m: &Model) {
        self.write_sources_at(m, None);
    }

    /// As `write_sources`; `mtime_s`: the simulated time stamped on rewritten files.
    pub fn write_sources_at(&self, m: &Model, mtime_s: Option<i64>) {
        let st = self.src_tauri();
        let src = st.join("src");
        fs::create_dir_all(&src).unwrap();
        let rendered = m.render();
        // guard against the workload generator itself: what it renders must be Rust
        for (p, text) in &rendered {
            if let Err(e) = syn::parse_file(text) {
                GENERATOR_ERRORS.with(|g| g.borrow_mut().push(format!("rendered {} does not parse: {}", p, e)));
            }
        }
        // delete .rs files that are not part of the model (extras are never .rs under src/ except the ones tests add explicitly afterwards)
        let mut existing: Vec<PathBuf> = vec![];
        collect_rs(&src, &mut existing);
        for p in existing {
            let rel = p.strip_prefix(&st).unwrap().to_string_lossy().into_owned();
            if !rendered.contains_key(&rel) {
                let _ = fs::remove_file(&p);
            }
        }
        for (p, text) in rendered {
            let fp = st.join(&p);
            if fs::read_to_string(&fp).map(|t| t == text).unwrap_or(false) {
                continue;
            }
            fs::create_dir_all(fp.parent().unwrap()).unwrap();
            fs::write(&fp, text).unwrap();
            if let Some(t) = mtime_s {
                set_mtime(&fp, t);
            }
        }
    }
    /// stamp one (simulated) modification time on every file of the world
    pub fn stamp_all(&self, secs: i64) {
        fn walk(d: &Path, secs: i64) {
            if let Ok(rd) = fs::read_dir(d) {
                for e in rd.flatten() {
                    let p = e.path();
                    match e.file_type() {
                        Ok(t) if t.is_dir() => walk(&p, secs),
                        Ok(t) if t.is_file() => set_mtime(&p, secs),
                        _ => {}
                    }
                }
            }
        }
        walk(&self.root, secs);
    }
    pub fn write_extra(&self, rel_to_src_tauri: &str, text: &str) {
        let fp = self.src_tauri().join(rel_to_src_tauri);
        fs::create_dir_all(fp.parent().unwrap()).unwrap();
        fs::write(fp, text).unwrap();
    }

    fn rel_from_cwd(&self, s: &Setup, target_rel_root: &str) -> String {
        // cwd is app/ or app/src-tauri/
        let up = match s.cwd {
            Cwd::App => 1,
            Cwd::SrcTauri => 2,
            Cwd::Member => 4,
            Cwd::Sub => 3,
        };
        let cwd_rel = match s.cwd {
            Cwd::App => "app",
            Cwd::SrcTauri => "app/src-tauri",
            Cwd::Member => "app/src-tauri/crates/member",
            Cwd::Sub => "app/src-tauri/sub",
        };
        if s.cwd == Cwd::Sub {
            if target_rel_root == "app/src-tauri" {
                return "..".into();
            }
            if let Some(rest) = target_rel_root.strip_prefix("app/src-tauri/") {
                if !rest.starts_with("sub/") {
                    return format!("../{}", rest);
                }
            }
            if let Some(rest) = target_rel_root.strip_prefix("app/") {
                if !rest.starts_with("src-tauri/") {
                    return format!("../../{}", rest);
                }
            }
        }
        if s.cwd == Cwd::Member {
            if target_rel_root == "app/src-tauri" {
                return "../..".into();
            }
            if let Some(rest) = target_rel_root.strip_prefix("app/src-tauri/") {
                return format!("../../{}", rest);
            }
            if let Some(rest) = target_rel_root.strip_prefix("app/") {
                return format!("../../../{}", rest);
            }
        }
        if let Some(rest) = target_rel_root.strip_prefix(&format!("{}/", cwd_rel)) {
            return format!("./{}", rest);
        }
        if target_rel_root == cwd_rel {
            return ".".into();
        }
        if s.cwd == Cwd::SrcTauri {
            if let Some(rest) = target_rel_root.strip_prefix("app/") {
                return format!("../{}", rest);
            }
        }
        format!("{}{}", "../".repeat(up), target_rel_root)
    }
    pub fn project_arg(&self, s: &Setup) -> String {
        let plain = self.rel_from_cwd(s, "app/src-tauri"); // "./src-tauri" or "."
        match (s.proj_style, s.cwd) {
            (1, Cwd::App) => "src-tauri".into(),
            (2, Cwd::App) => "./src-tauri/".into(),
            (3, Cwd::App) => "./src/../src-tauri".into(),
            (1, Cwd::SrcTauri) => "./".into(),
            (2, Cwd::SrcTauri) => "../src-tauri".into(),
            (3, Cwd::SrcTauri) => "./src/..".into(),
            (1, Cwd::Member) => "../../".into(),
            (2, Cwd::Member) => "../../../src-tauri".into(),
            (3, Cwd::Member) => "./../..".into(),
            (1, Cwd::Sub) => "../".into(),
            (2, Cwd::Sub) => "../../src-tauri".into(),
            (3, Cwd::Sub) => "./..".into(),
            _ => plain,
        }
    }
    pub fn output_arg(&self, s: &Setup) -> String {
        let plain = self.rel_from_cwd(s, &s.out);
        match s.out_style {
            OutStyle::Plain => plain,
            OutStyle::TrailingSlash => format!("{}/", plain),
            OutStyle::DotDot => {
                // ./a/b  ->  ./a/zz/../b   (zz need not exist for lexical tools, but
                // the kernel needs it: use an existing directory: the parent itself)
                match plain.rsplit_once('/') {
                    Some((head, tail)) if head != "." && head != ".." && !head.is_empty() => {
                        let parent_name = head.rsplit('/').next().unwrap_or("");
                        if parent_name == "." || parent_name == ".." || parent_name.is_empty() {
                            plain
                        } else {
                            format!("{}/../{}/{}", head, parent_name, tail)
                        }
                    }
                    _ => plain,
                }
            }
            OutStyle::Absolute => self.out_dir(s).to_string_lossy().into_owned(),
            OutStyle::NoDotSlash => plain.strip_prefix("./").unwrap_or(&plain).to_string(),
        }
    }

    /// Write configuration files for this setup. Returns nothing; `argv` gives the
    /// matching command line.
    fn output_arg_in_file(&self, s: &Setup, c: &Cfg) -> String {
        match &c.file_out {
            Some(o) => self.rel_from_cwd(s, o),
            None => self.output_arg(s),
        }
    }

    pub fn write_config(&self, s: &Setup, c: &Cfg) {
        let tconf = self.src_tauri().join("tauri.conf.json");
        let mut doc: serde_json::Value = serde_json::from_str(BASE_TAURI_CONF).unwrap();
        let standalone_path = self.cwd(s).join("typegen.json");
        let _ = fs::remove_file(self.app().join("typegen.json"));
        let _ = fs::remove_file(self.src_tauri().join("typegen.json"));
        match s.conf {
            ConfSrc::Tauri => {
                let mut t = serde_json::Map::new();
                t.insert("projectPath".into(), self.project_arg(s).into());
                t.insert("outputPath".into(), self.output_arg_in_file(s, c).into());
                t.insert("validationLibrary".into(), c.mode_in_file().into());
                if c.visualize_in_file() {
                    t.insert("visualizeDeps".into(), true.into());
                }
                if let Some(b) = c.include_private {
                    t.insert("includePrivate".into(), b.into());
                }
                if let Some(b) = c.force {
                    t.insert("force".into(), b.into());
                }
                if !c.mappings.is_empty() {
                    t.insert("typeMappings".into(), serde_json::to_value(&c.mappings).unwrap());
                }
                doc["plugins"]["typegen"] = serde_json::Value::Object(t);
            }
            ConfSrc::Standalone => {
                let mut t = serde_json::Map::new();
                t.insert("project_path".into(), self.project_arg(s).into());
                t.insert("output_path".into(), self.output_arg_in_file(s, c).into());
                t.insert("validation_library".into(), c.mode_in_file().into());
                if c.visualize_in_file() {
                    t.insert("visualize_deps".into(), true.into());
                }
                if let Some(b) = c.include_private {
                    t.insert("include_private".into(), b.into());
                }
                if let Some(b) = c.force {
                    t.insert("force".into(), b.into());
                }
                if !c.mappings.is_empty() {
                    t.insert("type_mappings".into(), serde_json::to_value(&c.mappings).unwrap());
                }
                if let Some(p) = &c.param_case {
                    t.insert("default_parameter_case".into(), p.clone().into());
                }
                if let Some(p) = &c.field_case {
                    t.insert("default_field_case".into(), p.clone().into());
                }
                fs::write(
                    &standalone_path,
                    serde_json::to_string_pretty(&serde_json::Value::Object(t)).unwrap(),
                )
                .unwrap();
            }
            ConfSrc::Flags => {}
        }
        fs::write(&tconf, serde_json::to_string_pretty(&doc).unwrap()).unwrap();
        for os in ["linux", "macos", "windows"] {
            let p = self.src_tauri().join(format!("tauri.{}.conf.json", os));
            if c.platform_confs {
                let _ = fs::write(&p, format!("{{\n  \"productName\": \"sim-app-{}\",\n  \"bundle\": {{ \"active\": true }}\n}}\n", os));
            } else {
                let _ = fs::remove_file(&p);
            }
        }
    }

    /// The command line (CLI entry) for a generate run.
    pub fn argv(&self, s: &Setup, c: &Cfg, force_flag: bool, verbose: bool) -> Vec<String> {
        let mut a: Vec<String> = vec!["cargo".into(), "tauri-typegen".into(), "generate".into()];
        if s.conf != ConfSrc::Flags {
            if c.file_mode.is_some() {
                a.push("-v".into());
                a.push(c.mode.clone());
            }
            if c.flag_visualize {
                a.push("--visualize-deps".into());
            }
            if c.file_out.is_some() {
                a.push("-o".into());
                a.push(self.output_arg(s));
            }
        }
        match s.conf {
            ConfSrc::Tauri => {}
            ConfSrc::Standalone => {
                a.push("-c".into());
                a.push("typegen.json".into());
            }
            ConfSrc::Flags => {
                a.push("-p".into());
                a.push(self.project_arg(s));
                a.push("-o".into());
                a.push(self.output_arg(s));
                a.push("-v".into());
                a.push(c.mode.clone());
                if c.visualize {
                    a.push("--visualize-deps".into());
                }
            }
        }
        if force_flag {
            a.push("--force".into());
        }
        if verbose {
            a.push("--verbose".into());
        }
        a
    }

    // ---- snapshots ---------------------------------------------------------

    pub fn snapshot(&self) -> Snapshot {
        let mut s = Snapshot::new();
        snap_dir(&self.root, &self.root, &mut s);
        s
    }
    pub fn snapshot_of(&self, rel: &str) -> Snapshot {
        let mut s = Snapshot::new();
        let base = self.root.join(rel);
        if base.is_dir() {
            snap_dir(&base, &base, &mut s);
        }
        s
    }
    /// modification times (sec, nsec) of every regular file, keyed like a snapshot
    pub fn file_times(&self) -> BTreeMap<String, (i64, i64)> {
        use std::os::unix::fs::MetadataExt;
        fn walk(base: &Path, d: &Path, out: &mut BTreeMap<String, (i64, i64)>) {
            if let Ok(rd) = fs::read_dir(d) {
                for e in rd.flatten() {
                    let p = e.path();
                    if let Ok(md) = fs::symlink_metadata(&p) {
                        if md.is_dir() {
                            walk(base, &p, out);
                        } else if md.is_file() {
                            out.insert(p.strip_prefix(base).unwrap().to_string_lossy().into_owned(), (md.mtime(), md.mtime_nsec()));
                        }
                    }
                }
            }
        }
        let mut m = BTreeMap::new();
        walk(&self.root, &self.root, &mut m);
        m
    }
    /// `restore`, then put the recorded modification times back
    pub fn restore_with_times(&self, snap: &Snapshot, times: &BTreeMap<String, (i64, i64)>) {
        self.restore(snap);
        for (rel, (s, ns)) in times {
            let p = self.root.join(rel);
            use std::os::unix::ffi::OsStrExt;
            if let Ok(c) = std::ffi::CString::new(p.as_os_str().as_bytes()) {
                let t = libc::timespec { tv_sec: *s as libc::time_t, tv_nsec: *ns as libc::c_long };
                let ts = [t, t];
                unsafe {
                    libc::syscall(libc::SYS_utimensat, libc::AT_FDCWD as libc::c_long, c.as_ptr(), ts.as_ptr(), libc::AT_SYMLINK_NOFOLLOW as libc::c_long);
                }
            }
        }
    }
    pub fn restore(&self, snap: &Snapshot) {
        // make everything removable first
        chmod_tree(&self.root);
        for e in fs::read_dir(&self.root).unwrap().flatten() {
            let p = e.path();
            let ft = e.file_type().unwrap();
            if ft.is_dir() {
                let _ = fs::remove_dir_all(&p);
            } else {
                let _ = fs::remove_file(&p);
            }
        }
        for (rel, node) in snap {
            let p = self.root.join(rel);
            match node {
                Node::Dir => fs::create_dir_all(&p).unwrap(),
                Node::File(b) => {
                    if let Some(par) = p.parent() {
                        fs::create_dir_all(par).unwrap();
                    }
                    fs::write(&p, b).unwrap();
                }
                Node::Symlink(t) => {
                    if let Some(par) = p.parent() {
                        fs::create_dir_all(par).unwrap();
                    }
                    std::os::unix::fs::symlink(t, &p).unwrap();
                }
            }
        }
    }
}

fn collect_rs(dir: &Path, out: &mut Vec<PathBuf>) {
    if let Ok(rd) = fs::read_dir(dir) {
        for e in rd.flatten() {
            let p = e.path();
            match e.file_type() {
                Ok(t) if t.is_dir() => collect_rs(&p, out),
                Ok(_) if p.extension().map(|x| x == "rs").unwrap_or(false) => out.push(p),
                _ => {}
            }
        }
    }
}

/// stamp a (simulated) modification time on a file
pub fn set_mtime(p: &Path, secs: i64) {
    use std::os::unix::ffi::OsStrExt;
    if let Ok(c) = std::ffi::CString::new(p.as_os_str().as_bytes()) {
        let ts = [
            libc::timespec { tv_sec: secs as libc::time_t, tv_nsec: 0 },
            libc::timespec { tv_sec: secs as libc::time_t, tv_nsec: 0 },
        ];
        unsafe {
            libc::syscall(libc::SYS_utimensat, libc::AT_FDCWD as libc::c_long, c.as_ptr(), ts.as_ptr(), 0 as libc::c_long);
        }
    }
}

fn chmod_tree(p: &Path) {
    if let Ok(md) = fs::symlink_metadata(p) {
        if md.is_dir() {
            let _ = fs::set_permissions(p, fs::Permissions::from_mode(0o755));
            if let Ok(rd) = fs::read_dir(p) {
                for e in rd.flatten() {
                    chmod_tree(&e.path());
                }
            }
        }
    }
}

fn snap_dir(base: &Path, dir: &Path, out: &mut Snapshot) {
    let mut names: Vec<PathBuf> = match fs::read_dir(dir) {
        Ok(rd) => rd.flatten().map(|e| e.path()).collect(),
        Err(_) => return,
    };
    names.sort();
    for p in names {
        let rel = p.strip_prefix(base).unwrap().to_string_lossy().into_owned();
        let md = match fs::symlink_metadata(&p) {
            Ok(m) => m,
            Err(_) => continue,
        };
        if md.file_type().is_symlink() {
            let t = fs::read_link(&p).map(|t| t.to_string_lossy().into_owned()).unwrap_or_default();
            out.insert(rel, Node::Symlink(t));
        } else if md.is_dir() {
            out.insert(rel, Node::Dir);
            snap_dir(base, &p, out);
        } else {
            out.insert(rel, Node::File(fs::read(&p).unwrap_or_default()));
        }
    }
}

#[derive(Clone, Debug, PartialEq, Eq, Serialize, Deserialize)]
pub enum Change {
    Created,
    Modified,
    Deleted,
}

pub fn diff(a: &Snapshot, b: &Snapshot) -> BTreeMap<String, Change> {
    let mut d = BTreeMap::new();
    for (k, v) in a {
        match b.get(k) {
            None => {
                d.insert(k.clone(), Change::Deleted);
            }
            Some(w) if w != v => {
                d.insert(k.clone(), Change::Modified);
            }
            _ => {}
        }
    }
    for k in b.keys() {
        if !a.contains_key(k) {
            d.insert(k.clone(), Change::Created);
        }
    }
    d
}

/// Digest of a snapshot with the (per-worker) absolute world root masked out of
/// file contents and link targets, so that digests are comparable across
/// worker processes.
pub fn snap_digest(s: &Snapshot, root: &str) -> u64 {
    let mut h: u64 = 0x1234_5678;
    let rb = root.as_bytes();
    for (k, v) in s {
        h = h.rotate_left(5) ^ fnv(k.as_bytes());
        match v {
            Node::File(b) if k.ends_with(".ts") => {
                // the "Generated at:" line carries the simulated clock, whose reading depends on
                // how often indicatif's real-time ticker made the progress bar look at it:
                // no oracle reads that line, and the digest must not either
                h = h.rotate_left(7) ^ fnv(crate::canon::strip_ts(b).as_bytes())
            }
            Node::File(b) => {
                let has_root = !rb.is_empty() && b.windows(rb.len()).any(|w| w == rb);
                if has_root {
                    let t = String::from_utf8_lossy(b).replace(root, "<W>");
                    h = h.rotate_left(7) ^ fnv(t.as_bytes())
                } else {
                    h = h.rotate_left(7) ^ fnv(b)
                }
            }
            Node::Dir => h = h.rotate_left(7) ^ 0xd1,
            Node::Symlink(t) => h = h.rotate_left(7) ^ fnv(t.replace(root, "<W>").as_bytes()) ^ 0x51,
        }
    }
    h
}

/// Copy a whole tree (regular files, directories, symlinks; permissions of files kept).
/// Absolute symlink targets below `src` are re-anchored below `dst`, as a user copying a
/// checkout with `cp -a` and fixing up its links would have it.
pub fn copy_tree(src: &Path, dst: &Path) {
    fn rec(from: &Path, to: &Path, src_root: &Path, dst_root: &Path) {
        fs::create_dir_all(to).expect("copy_tree: mkdir");
        let mut entries: Vec<_> = fs::read_dir(from).expect("copy_tree: read_dir").flatten().collect();
        entries.sort_by_key(|e| e.file_name());
        for e in entries {
            let ft = e.file_type().expect("copy_tree: file_type");
            let a = e.path();
            let b = to.join(e.file_name());
            if ft.is_symlink() {
                let t = fs::read_link(&a).expect("copy_tree: read_link");
                let t2 = match t.strip_prefix(src_root) {
                    Ok(rel) => dst_root.join(rel),
                    Err(_) => t,
                };
                std::os::unix::fs::symlink(&t2, &b).expect("copy_tree: symlink");
            } else if ft.is_dir() {
                rec(&a, &b, src_root, dst_root);
            } else {
                fs::copy(&a, &b).expect("copy_tree: copy");
            }
        }
    }
    let _ = fs::remove_dir_all(dst);
    rec(src, dst, src, dst);
}
