//! Seam self-test: one probe per intercepted std operation, inside a
//! simulated process, must produce the expected trace events.

use crate::interpose::{Op, ProcSpec};
use crate::process::{self, Call};
use std::path::PathBuf;

pub fn seam_selftest() -> Result<usize, String> {
    let dir = PathBuf::from(format!("/dev/shm/ttg-sim/selftest-{}", std::process::id()));
    let _ = std::fs::remove_dir_all(&dir);
    std::fs::create_dir_all(&dir).map_err(|e| e.to_string())?;
    let d2 = dir.clone();
    let mut spec = ProcSpec::plain(42);
    spec.clock.start_s = 2_000_000_000;
    let f = move || -> Result<(), String> {
        use std::collections::HashMap;
        let d = d2;
        std::fs::create_dir_all(d.join("a/b")).map_err(|e| e.to_string())?;
        std::fs::write(d.join("a/b/f.txt"), b"hello world").map_err(|e| e.to_string())?;
        let s = std::fs::read_to_string(d.join("a/b/f.txt")).map_err(|e| e.to_string())?;
        if s != "hello world" {
            return Err("read back".into());
        }
        std::fs::rename(d.join("a/b/f.txt"), d.join("a/b/g.txt")).map_err(|e| e.to_string())?;
        for i in 0..5 {
            std::fs::write(d.join(format!("a/e{}", i)), b"x").map_err(|e| e.to_string())?;
        }
        let names: Vec<String> = std::fs::read_dir(d.join("a"))
            .map_err(|e| e.to_string())?
            .map(|e| e.unwrap().file_name().to_string_lossy().into_owned())
            .collect();
        println!("ORDER {}", names.join(","));
        std::fs::remove_file(d.join("a/b/g.txt")).map_err(|e| e.to_string())?;
        let now = std::time::SystemTime::now()
            .duration_since(std::time::UNIX_EPOCH)
            .unwrap()
            .as_secs();
        println!("NOW {}", now);
        let mut m: HashMap<String, u32> = HashMap::new();
        for i in 0..16 {
            m.insert(format!("k{}", i), i);
        }
        let order: Vec<String> = m.keys().cloned().collect();
        println!("HASH {}", order.join(","));
        Ok(())
    };
    let run = |spec: ProcSpec, f: Box<dyn FnOnce() -> Result<(), String> + Send>| process::run(&dir, spec, Call::Func(f));
    let r1 = run(spec.clone(), Box::new(f.clone()));
    let _ = std::fs::remove_dir_all(dir.join("a"));
    let r2 = run(spec.clone(), Box::new(f.clone()));
    let _ = std::fs::remove_dir_all(dir.join("a"));
    let mut spec3 = spec.clone();
    spec3.hash_keys = [7, 9];
    spec3.readdir_seed = 99;
    let r3 = run(spec3, Box::new(f));
    let _ = std::env::set_current_dir("/");
    let _ = std::fs::remove_dir_all(&dir);
    if !r1.status.is_ok() {
        return Err(format!("probe process failed: {:?}", r1.status));
    }
    let mut probes = 0;
    let need = |op: Op, suffix: &str| -> Result<(), String> {
        if r1.trace.iter().any(|e| e.op == op && e.path.ends_with(suffix)) {
            Ok(())
        } else {
            Err(format!("no {:?} event for {} (std no longer reaches the seam through the interposed symbol)", op, suffix))
        }
    };
    need(Op::Mkdir, "/a/b")?;
    need(Op::OpenW, "/a/b/f.txt")?;
    need(Op::Write, "/a/b/f.txt")?;
    need(Op::Close, "/a/b/f.txt")?;
    need(Op::Rename, "/a/b/f.txt")?;
    need(Op::Unlink, "/a/b/g.txt")?;
    probes += 6;
    if !r1.stdout.contains("NOW 2000000000") {
        return Err(format!("clock not simulated: {}", r1.stdout));
    }
    probes += 1;
    if r1.counts.get("read").copied().unwrap_or(0) == 0 || r1.counts.get("readdir64").copied().unwrap_or(0) == 0 {
        return Err("read/readdir64 not intercepted".into());
    }
    probes += 2;
    if r1.counts.get("getrandom").copied().unwrap_or(0) == 0 {
        return Err("getrandom not intercepted (hash seeds uncontrolled)".into());
    }
    probes += 1;
    if r1.stdout != r2.stdout {
        return Err(format!("same ProcSpec, different behaviour:\n{}\n{}", r1.stdout, r2.stdout));
    }
    probes += 1;
    let line = |s: &str, p: &str| s.lines().find(|l| l.starts_with(p)).unwrap_or("").to_string();
    if line(&r1.stdout, "HASH") == line(&r3.stdout, "HASH") {
        return Err("different hash keys, same HashMap order".into());
    }
    if line(&r1.stdout, "ORDER") == line(&r3.stdout, "ORDER") {
        return Err("different readdir seed, same directory order".into());
    }
    probes += 2;
    Ok(probes)
}
