//! Comparison functions over generated files.

use crate::world::{Node, Snapshot};
use std::collections::BTreeMap;

/// bytes -> text with the single "Generated at:" header line removed
pub fn strip_ts(b: &[u8]) -> String {
    let s = String::from_utf8_lossy(b);
    let mut out = String::with_capacity(s.len());
    for line in s.split_inclusive('\n') {
        if line.trim_start().starts_with("* Generated at:") {
            continue;
        }
        out.push_str(line);
    }
    out
}

pub fn exact_eq(a: &[u8], b: &[u8]) -> bool {
    strip_ts(a) == strip_ts(b)
}

/// Top-level declaration blocks of a generated TypeScript file.
pub fn blocks(text: &str) -> Vec<String> {
    let mut out: Vec<String> = Vec::new();
    let mut cur = String::new();
    let mut prev_comment_end = false;
    for line in text.lines() {
        let starts = (line.starts_with("export ") && !prev_comment_end)
            || line.starts_with("/**")
            || (line.starts_with("import ") && !cur.trim_start().starts_with("import "));
        if starts && !cur.trim().is_empty() {
            out.push(cur.trim_end().to_string());
            cur = String::new();
        }
        // a doc comment belongs to the export that follows it immediately; a
        // blank line in between (the file header) breaks the attachment
        prev_comment_end = line.trim_end() == " */" || line.trim_end() == "*/";
        cur.push_str(line.trim_end());
        cur.push('\n');
    }
    if !cur.trim().is_empty() {
        out.push(cur.trim_end().to_string());
    }
    out
}

/// same multiset of declaration blocks
pub fn canon_eq(a: &[u8], b: &[u8]) -> bool {
    canon_key(a) == canon_key(b)
}

pub fn canon_key(a: &[u8]) -> Vec<String> {
    let mut x = blocks(&strip_ts(a));
    x.sort();
    x
}

/// line multiset, for the dependency-graph files (free-form text)
pub fn lines_key(a: &[u8]) -> Vec<String> {
    let mut x: Vec<String> = String::from_utf8_lossy(a).lines().map(|l| l.to_string()).collect();
    x.sort();
    x
}

/// line multiset with the words of each line sorted: order-insensitive at both levels
pub fn loose_lines_key(a: &[u8]) -> Vec<String> {
    let mut x: Vec<String> = String::from_utf8_lossy(a)
        .lines()
        .map(|l| {
            let mut w: Vec<&str> = l
                .split(|c: char| c.is_whitespace() || c == ',')
                .filter(|s| !s.is_empty())
                .collect();
            w.sort();
            w.join(" ")
        })
        .collect();
    x.sort();
    x
}

/// files (not directories) directly inside a snapshot of the output directory
pub fn files_of(s: &Snapshot) -> BTreeMap<String, Vec<u8>> {
    s.iter()
        .filter_map(|(k, v)| match v {
            Node::File(b) if !k.contains('/') => Some((k.clone(), b.clone())),
            _ => None,
        })
        .collect()
}

#[derive(Clone, Copy, Debug, PartialEq, Eq)]
pub enum Cmp {
    Exact,
    Canon,
}

/// Compare what a run left (`got`) with what the reference generation writes
/// (`want`): every file of the reference must exist and match.  Returns the
/// list of (file, problem).
pub fn compare_to_reference(
    got: &BTreeMap<String, Vec<u8>>,
    want: &BTreeMap<String, Vec<u8>>,
    cmp: Cmp,
    skip_cache: bool,
) -> Vec<(String, String)> {
    let mut bad = vec![];
    for (name, wb) in want {
        if skip_cache && name == ".typecache" {
            continue;
        }
        match got.get(name) {
            None => bad.push((name.clone(), "missing".to_string())),
            Some(gb) => {
                let same = if name.starts_with("dependency-graph") {
                    match cmp {
                        Cmp::Exact => gb == wb,
                        Cmp::Canon => loose_lines_key(gb) == loose_lines_key(wb),
                    }
                } else if name == ".typecache" {
                    gb == wb
                } else {
                    match cmp {
                        Cmp::Exact => exact_eq(gb, wb),
                        Cmp::Canon => canon_eq(gb, wb),
                    }
                };
                if !same {
                    bad.push((name.clone(), "content differs".to_string()));
                }
            }
        }
    }
    bad
}

/// first differing declaration block, for reports
pub fn first_diff(a: &[u8], b: &[u8]) -> String {
    let ka = canon_key(a);
    let kb = canon_key(b);
    for x in &ka {
        if !kb.contains(x) {
            // the block of B that starts with the same line, if there is one
            let head = x.lines().next().unwrap_or("");
            let twin = kb.iter().find(|y| y.lines().next().unwrap_or("") == head);
            return match twin {
                Some(y) => format!("differs: A has `{}` / B has `{}`", x.chars().take(400).collect::<String>(), y.chars().take(400).collect::<String>()),
                None => format!("only in A: {}", x.chars().take(300).collect::<String>()),
            };
        }
    }
    for x in &kb {
        if !ka.contains(x) {
            return format!("only in B: {}", x.chars().take(300).collect::<String>());
        }
    }
    // same multiset: order differs
    let ba = blocks(&strip_ts(a));
    let bb = blocks(&strip_ts(b));
    for (i, (x, y)) in ba.iter().zip(bb.iter()).enumerate() {
        if x != y {
            let hx = x.lines().next().unwrap_or("");
            let hy = y.lines().next().unwrap_or("");
            return format!("order differs at block {}: `{}` vs `{}`", i, hx, hy);
        }
    }
    "whitespace only".to_string()
}

/// Names of exported schema constants in emission order, with the schema
/// identifiers each right-hand side mentions.
pub fn schema_sequence(types_ts: &str) -> Vec<(String, Vec<String>)> {
    let mut out: Vec<(String, Vec<String>)> = Vec::new();
    for b in blocks(types_ts) {
        let first = b.lines().next().unwrap_or("");
        if let Some(rest) = first.strip_prefix("export const ") {
            if let Some(eq) = rest.find('=') {
                let name = rest[..eq].trim();
                if name.ends_with("Schema") {
                    let rhs = &b[b.find('=').unwrap_or(0)..];
                    out.push((name.to_string(), schema_idents(rhs)));
                }
            }
        }
    }
    out
}

fn schema_idents(s: &str) -> Vec<String> {
    let mut v = vec![];
    let bytes = s.as_bytes();
    let mut i = 0;
    while i < bytes.len() {
        let c = bytes[i] as char;
        if c.is_ascii_alphabetic() || c == '_' || c == '$' {
            let st = i;
            while i < bytes.len() && ((bytes[i] as char).is_ascii_alphanumeric() || bytes[i] == b'_' || bytes[i] == b'$') {
                i += 1;
            }
            let id = &s[st..i];
            let preceded_by_dot = st > 0 && bytes[st - 1] == b'.';
            if id.ends_with("Schema") && id.len() > 6 && !preceded_by_dot && !v.contains(&id.to_string()) {
                v.push(id.to_string());
            }
        } else {
            i += 1;
        }
    }
    v
}
