//! Comparison functions over generated files.

use crate::world::{Node, Snapshot};
use std::collections::BTreeMap;

/// bytes -> text with the single "Generated at:" header line removed
pub fn strip_ts(b: &[u8]) -> String {
    let s = String::from_utf8_lossy(b);
    let mut out = String::with_capacity(s.len());
    // the timestamp comment: the "Generated at:" line, or - should its wording change - any
    // line of the leading comment block that carries a date (dddd-dd-dd)
    let mut in_header = true;
    for line in s.split_inclusive('\n') {
        let t = line.trim_start();
        if in_header {
            if t.starts_with("* Generated at:") || ((t.starts_with('*') || t.starts_with("//") || t.starts_with("/*")) && has_date(t)) {
                continue;
            }
            if !(t.is_empty() || t.starts_with('*') || t.starts_with("/*") || t.starts_with("//")) {
                in_header = false;
            }
        } else if t.starts_with("* Generated at:") {
            continue;
        }
        out.push_str(line);
    }
    out
}

fn has_date(s: &str) -> bool {
    let b = s.as_bytes();
    if b.len() < 10 {
        return false;
    }
    for i in 0..=b.len() - 10 {
        let w = &b[i..i + 10];
        if w[..4].iter().all(|c| c.is_ascii_digit()) && w[4] == b'-' && w[5..7].iter().all(|c| c.is_ascii_digit()) && w[7] == b'-' && w[8..10].iter().all(|c| c.is_ascii_digit()) {
            return true;
        }
    }
    false
}

pub fn exact_eq(a: &[u8], b: &[u8]) -> bool {
    strip_ts(a) == strip_ts(b)
}

/// Top-level declaration blocks of a generated TypeScript file.
pub fn blocks(text: &str) -> Vec<String> {
    let mut out: Vec<String> = Vec::new();
    let mut cur = String::new();
    let mut prev_comment_end = false;
    for line in text.lines() {
        let starts = (line.starts_with("export ") && !prev_comment_end)
            || line.starts_with("/**")
            || (line.starts_with("import ") && !cur.trim_start().starts_with("import "));
        if starts && !cur.trim().is_empty() {
            out.push(cur.trim_end().to_string());
            cur = String::new();
        }
        // a doc comment belongs to the export that follows it immediately; a
        // blank line in between (the file header) breaks the attachment
        prev_comment_end = line.trim_end() == " */" || line.trim_end() == "*/";
        cur.push_str(line.trim_end());
        cur.push('\n');
    }
    if !cur.trim().is_empty() {
        out.push(cur.trim_end().to_string());
    }
    out
}

/// same multiset of declaration blocks
pub fn canon_eq(a: &[u8], b: &[u8]) -> bool {
    canon_key(a) == canon_key(b)
}

pub fn canon_key(a: &[u8]) -> Vec<String> {
    let mut x = blocks(&strip_ts(a));
    x.sort();
    x
}

/// Same multiset of declarations once every comment line is taken out: what a layout change of
/// the SOURCES may not alter is the declarations; a comment that lists things in the order they
/// were found (or a banner glued to whichever declaration happens to come first) is not one.
pub fn decls_eq(a: &[u8], b: &[u8]) -> bool {
    fn key(x: &[u8]) -> Vec<String> {
        let text = strip_ts(x);
        let code: String = text
            .lines()
            .filter(|l| {
                let t = l.trim_start();
                !(t.starts_with("//") || t.starts_with("/*") || t.starts_with('*'))
            })
            .map(|l| format!("{}\n", l))
            .collect();
        let mut v = blocks(&code);
        v.sort();
        v
    }
    key(a) == key(b)
}

/// line multiset, for the dependency-graph files (free-form text)
pub fn lines_key(a: &[u8]) -> Vec<String> {
    let mut x: Vec<String> = String::from_utf8_lossy(a).lines().map(|l| l.to_string()).collect();
    x.sort();
    x
}

/// line multiset with the words of each line sorted: order-insensitive at both levels
pub fn loose_lines_key(a: &[u8]) -> Vec<String> {
    let mut x: Vec<String> = String::from_utf8_lossy(a)
        .lines()
        .map(|l| {
            let mut w: Vec<&str> = l
                .split(|c: char| c.is_whitespace() || c == ',')
                .filter(|s| !s.is_empty())
                .collect();
            w.sort();
            w.join(" ")
        })
        .collect();
    x.sort();
    x
}

/// files (not directories) directly inside a snapshot of the output directory
pub fn files_of(s: &Snapshot) -> BTreeMap<String, Vec<u8>> {
    s.iter()
        .filter_map(|(k, v)| match v {
            Node::File(b) if !k.contains('/') => Some((k.clone(), b.clone())),
            _ => None,
        })
        .collect()
}

#[derive(Clone, Copy, Debug, PartialEq, Eq)]
pub enum Cmp {
    Exact,
    Canon,
}

/// Compare what a run left (`got`) with what the reference generation writes
/// (`want`): every file of the reference must exist and match.  Returns the
/// list of (file, problem).
pub fn compare_to_reference(
    got: &BTreeMap<String, Vec<u8>>,
    want: &BTreeMap<String, Vec<u8>>,
    cmp: Cmp,
    skip_cache: bool,
) -> Vec<(String, String)> {
    let mut bad = vec![];
    for (name, wb) in want {
        if skip_cache && name == ".typecache" {
            continue;
        }
        match got.get(name) {
            None => bad.push((name.clone(), "missing".to_string())),
            Some(gb) => {
                let same = if name.starts_with("dependency-graph") {
                    match cmp {
                        Cmp::Exact => gb == wb,
                        Cmp::Canon => loose_lines_key(gb) == loose_lines_key(wb),
                    }
                } else if name == ".typecache" {
                    gb == wb
                } else {
                    match cmp {
                        Cmp::Exact => exact_eq(gb, wb),
                        Cmp::Canon => canon_eq(gb, wb),
                    }
                };
                if !same {
                    bad.push((name.clone(), "content differs".to_string()));
                }
            }
        }
    }
    bad
}

/// first differing declaration block, for reports
pub fn first_diff(a: &[u8], b: &[u8]) -> String {
    let ka = canon_key(a);
    let kb = canon_key(b);
    for x in &ka {
        if !kb.contains(x) {
            // the block of B that starts with the same line, if there is one
            let head = x.lines().next().unwrap_or("");
            let twin = kb.iter().find(|y| y.lines().next().unwrap_or("") == head);
            return match twin {
                Some(y) => format!("differs: A has `{}` / B has `{}`", x.chars().take(400).collect::<String>(), y.chars().take(400).collect::<String>()),
                None => format!("only in A: {}", x.chars().take(300).collect::<String>()),
            };
        }
    }
    for x in &kb {
        if !ka.contains(x) {
            return format!("only in B: {}", x.chars().take(300).collect::<String>());
        }
    }
    // same multiset: order differs
    let ba = blocks(&strip_ts(a));
    let bb = blocks(&strip_ts(b));
    for (i, (x, y)) in ba.iter().zip(bb.iter()).enumerate() {
        if x != y {
            let hx = x.lines().next().unwrap_or("");
            let hy = y.lines().next().unwrap_or("");
            return format!("order differs at block {}: `{}` vs `{}`", i, hx, hy);
        }
    }
    "whitespace only".to_string()
}

/// Names of exported schema constants in emission order, with the schema
/// identifiers each right-hand side mentions.
pub fn schema_sequence(types_ts: &str) -> Vec<(String, Vec<String>)> {
    let mut out: Vec<(String, Vec<String>)> = Vec::new();
    for b in blocks(types_ts) {
        let first = b.lines().next().unwrap_or("");
        if let Some(rest) = first.strip_prefix("export const ") {
            // the declared name: the identifier itself (a type annotation may follow it)
            let name: String = rest.chars().take_while(|c| c.is_alphanumeric() || *c == '_' || *c == '$').collect();
            if name.ends_with("Schema") && b.contains('=') {
                let rhs = &b[b.find('=').unwrap_or(0)..];
                out.push((name, schema_idents(&strip_deferred(rhs))));
            }
        }
    }
    out
}

/// Remove what is not evaluated when the statement runs: the bodies of `z.lazy(...)` and
/// of arrow functions are evaluated later, a reference inside them is not a read.
fn strip_deferred(s: &str) -> String {
    let mut out = String::with_capacity(s.len());
    let b = s.as_bytes();
    let mut i = 0;
    while i < b.len() {
        let lazy = s[i..].starts_with("z.lazy(") || s[i..].starts_with("lazy(");
        let arrow = s[i..].starts_with("=>");
        if lazy || arrow {
            // skip a balanced (...) / {...} group, or - for an arrow without braces - up to the
            // closing parenthesis / comma of the enclosing call
            let mut j = i + if arrow { 2 } else { s[i..].find('(').unwrap() };
            let mut depth = 0i32;
            let mut started = false;
            while j < b.len() {
                match b[j] {
                    b'(' | b'{' | b'[' => {
                        depth += 1;
                        started = true;
                    }
                    b')' | b'}' | b']' => {
                        depth -= 1;
                        if depth < 0 || (started && depth == 0) {
                            if depth == 0 {
                                j += 1;
                            }
                            break;
                        }
                    }
                    b',' | b';' if depth == 0 && arrow => break,
                    _ => {}
                }
                j += 1;
            }
            out.push(' ');
            i = j.max(i + 1);
        } else {
            let ch_len = s[i..].chars().next().map(|c| c.len_utf8()).unwrap_or(1);
            out.push_str(&s[i..i + ch_len]);
            i += ch_len;
        }
    }
    out
}

fn schema_idents(s: &str) -> Vec<String> {
    let mut v = vec![];
    let bytes = s.as_bytes();
    let mut i = 0;
    while i < bytes.len() {
        let c = bytes[i] as char;
        // identifiers may be written in any script: every non-ASCII byte counts as a letter
        if c.is_ascii_alphabetic() || c == '_' || c == '$' || bytes[i] >= 0x80 {
            let st = i;
            while i < bytes.len() && ((bytes[i] as char).is_ascii_alphanumeric() || bytes[i] == b'_' || bytes[i] == b'$' || bytes[i] >= 0x80) {
                i += 1;
            }
            let id = &s[st..i];
            let preceded_by_dot = st > 0 && bytes[st - 1] == b'.';
            if id.ends_with("Schema") && id.len() > 6 && !preceded_by_dot && !v.contains(&id.to_string()) {
                v.push(id.to_string());
            }
        } else {
            i += 1;
        }
    }
    v
}
