//! Abstract project model: what the workload generators reason about.  Rust
//! source text is rendered from it; edits are model transformations.  The
//! model is the ground truth for oracles that need one (C09 edge set).

use crate::rng::Rng;
use serde::{Deserialize, Serialize};
use std::collections::{BTreeMap, BTreeSet};

#[derive(Clone, Debug, PartialEq, Eq, Serialize, Deserialize)]
pub enum Ty {
    Prim(String),
    Named(String),
    Opt(Box<Ty>),
    Vec(Box<Ty>),
    HSet(Box<Ty>),
    BSet(Box<Ty>),
    HMap(Box<Ty>, Box<Ty>),
    BMap(Box<Ty>, Box<Ty>),
    Tup(Vec<Ty>),
    Res(Box<Ty>, String),
    /// other generic wrapper, e.g. Box<T>, Arc<T>
    Gen(String, Vec<Ty>),
    /// fixed-size array [T; n]
    Arr(Box<Ty>, usize),
}

impl Ty {
    pub fn render(&self) -> String {
        match self {
            Ty::Prim(p) => p.clone(),
            Ty::Named(n) => n.clone(),
            Ty::Opt(t) => format!("Option<{}>", t.render()),
            Ty::Vec(t) => format!("Vec<{}>", t.render()),
            Ty::HSet(t) => format!("HashSet<{}>", t.render()),
            Ty::BSet(t) => format!("BTreeSet<{}>", t.render()),
            Ty::HMap(k, v) => format!("HashMap<{}, {}>", k.render(), v.render()),
            Ty::BMap(k, v) => format!("BTreeMap<{}, {}>", k.render(), v.render()),
            Ty::Tup(ts) => format!(
                "({})",
                ts.iter().map(|t| t.render()).collect::<Vec<_>>().join(", ")
            ),
            Ty::Res(t, e) => format!("Result<{}, {}>", t.render(), e),
            Ty::Gen(g, ts) => format!(
                "{}<{}>",
                g,
                ts.iter().map(|t| t.render()).collect::<Vec<_>>().join(", ")
            ),
            Ty::Arr(t, n) => format!("[{}; {}]", t.render(), n),
        }
    }
    pub fn named(&self, out: &mut BTreeSet<String>) {
        match self {
            Ty::Prim(_) => {}
            Ty::Named(n) => {
                out.insert(n.clone());
            }
            Ty::Opt(t) | Ty::Vec(t) | Ty::HSet(t) | Ty::BSet(t) => t.named(out),
            Ty::HMap(k, v) | Ty::BMap(k, v) => {
                k.named(out);
                v.named(out);
            }
            Ty::Tup(ts) | Ty::Gen(_, ts) => ts.iter().for_each(|t| t.named(out)),
            Ty::Res(t, _) | Ty::Arr(t, _) => t.named(out),
        }
    }
    pub fn is_opt(&self) -> bool {
        matches!(self, Ty::Opt(_))
    }
    /// short label of the outermost constructor path down to the first Named
    pub fn context_label(&self) -> String {
        match self {
            Ty::Prim(_) => "prim".into(),
            Ty::Named(_) => "direct".into(),
            Ty::Opt(t) => format!("Option<{}>", t.context_label()),
            Ty::Vec(t) => format!("Vec<{}>", t.context_label()),
            Ty::HSet(t) => format!("HashSet<{}>", t.context_label()),
            Ty::BSet(t) => format!("BTreeSet<{}>", t.context_label()),
            Ty::HMap(k, v) => format!("HashMap<{},{}>", k.context_label(), v.context_label()),
            Ty::BMap(k, v) => format!("BTreeMap<{},{}>", k.context_label(), v.context_label()),
            Ty::Tup(ts) => format!(
                "({})",
                ts.iter().map(|t| t.context_label()).collect::<Vec<_>>().join(",")
            ),
            Ty::Res(t, _) => format!("Result<{}>", t.context_label()),
            Ty::Gen(g, ts) => format!(
                "{}<{}>",
                g,
                ts.iter().map(|t| t.context_label()).collect::<Vec<_>>().join(",")
            ),
            Ty::Arr(t, _) => format!("[{};n]", t.context_label()),
        }
    }
}

#[derive(Clone, Debug, PartialEq, Serialize, Deserialize)]
pub struct Field {
    pub name: String,
    pub ty: Ty,
    pub public: bool,
    pub rename: Option<String>,
    pub skip: bool,
    /// inner text of `#[validate(...)]`, e.g. `length(min = 1, max = 10)`
    pub validate: Option<String>,
}

#[derive(Clone, Debug, PartialEq, Serialize, Deserialize)]
pub struct StructDef {
    pub name: String,
    pub fields: Vec<Field>,
    pub rename_all: Option<String>,
    /// false: a plain (non-serde) struct - must be invisible to the tool
    pub serde: bool,
    /// spell the derive `serde::Serialize, serde::Deserialize`
    #[serde(default)]
    pub qualified_derive: bool,
}

#[derive(Clone, Debug, PartialEq, Serialize, Deserialize)]
pub struct Variant {
    pub name: String,
    pub rename: Option<String>,
    /// `Name(T)`: a data-carrying (newtype) variant
    #[serde(default)]
    pub payload: Option<Ty>,
}

#[derive(Clone, Debug, PartialEq, Serialize, Deserialize)]
pub struct EnumDef {
    pub name: String,
    pub variants: Vec<Variant>,
    pub rename_all: Option<String>,
}

#[derive(Clone, Debug, PartialEq, Serialize, Deserialize)]
pub struct Param {
    pub name: String,
    pub ty: Ty,
}

#[derive(Clone, Debug, PartialEq, Serialize, Deserialize)]
pub struct Chan {
    pub name: String,
    pub msg: Ty,
    /// `#[serde(rename = "...")]` on the channel parameter
    #[serde(default)]
    pub rename: Option<String>,
}

#[derive(Clone, Debug, PartialEq, Serialize, Deserialize)]
pub enum Payload {
    /// a parameter of the enclosing function (by name), cloned
    Var(String),
    /// `T { .. }` struct literal of the named type
    Lit(String),
    Int,
    Str,
    Bool,
    /// a tuple literal `(1, "two")`
    Tuple,
    /// `let <var> = <init>;` in the function body, then the variable is emitted
    Local { var: String, init: LocalInit },
}

#[derive(Clone, Debug, PartialEq, Serialize, Deserialize)]
pub enum LocalInit {
    /// `T { }`           (the event parser infers T)
    Lit(String),
    /// `T::new()`        (inferred as T)
    New(String),
    /// `compute_it()`    (not inferable)
    Call,
    /// another parameter of the function
    Param(String),
}

#[derive(Clone, Debug, PartialEq, Serialize, Deserialize)]
pub struct Emit {
    pub event: String,
    pub payload: Payload,
    pub emit_to: bool,
}

#[derive(Clone, Debug, PartialEq, Serialize, Deserialize)]
pub struct Command {
    pub name: String,
    pub params: Vec<Param>,
    pub chans: Vec<Chan>,
    pub ret: Option<Ty>,
    pub is_async: bool,
    /// `#[command]` instead of `#[tauri::command]`
    pub short_attr: bool,
    pub emits: Vec<Emit>,
    /// false: a plain helper function (no command attribute); may still emit
    pub is_command: bool,
}

#[derive(Clone, Debug, PartialEq, Serialize, Deserialize)]
pub enum Item {
    Cmd(Command),
    Struct(StructDef),
    Enum(EnumDef),
    /// verbatim text (decoys, comments, impl blocks)
    Raw(String),
}

impl Item {
    pub fn name(&self) -> Option<&str> {
        match self {
            Item::Cmd(c) => Some(&c.name),
            Item::Struct(s) => Some(&s.name),
            Item::Enum(e) => Some(&e.name),
            Item::Raw(_) => None,
        }
    }
}

#[derive(Clone, Debug, PartialEq, Serialize, Deserialize)]
pub struct SrcFile {
    /// relative to src-tauri/
    pub path: String,
    pub items: Vec<Item>,
}

#[derive(Clone, Debug, PartialEq, Serialize, Deserialize, Default)]
pub struct Model {
    pub files: Vec<SrcFile>,
}

// ---------------------------------------------------------------------------
// Rendering
// ---------------------------------------------------------------------------

const FILE_HEADER: &str = "use serde::{Deserialize, Serialize};\nuse std::collections::{BTreeMap, BTreeSet, HashMap, HashSet};\nuse tauri::Emitter;\n";

pub fn render_item(it: &Item) -> String {
    match it {
        Item::Raw(s) => s.clone(),
        Item::Struct(s) => {
            let mut o = String::new();
            if s.serde && s.qualified_derive {
                o.push_str("#[derive(Debug, Clone, serde::Serialize, serde::Deserialize)]\n");
            } else if s.serde {
                o.push_str("#[derive(Debug, Clone, Serialize, Deserialize)]\n");
            } else {
                o.push_str("#[derive(Debug, Clone)]\n");
            }
            if let Some(r) = &s.rename_all {
                o.push_str(&format!("#[serde(rename_all = \"{}\")]\n", r));
            }
            o.push_str(&format!("pub struct {} {{\n", s.name));
            for f in &s.fields {
                if f.skip {
                    o.push_str("    #[serde(skip)]\n");
                }
                if let Some(r) = &f.rename {
                    o.push_str(&format!("    #[serde(rename = \"{}\")]\n", r));
                }
                if let Some(v) = &f.validate {
                    o.push_str(&format!("    #[validate({})]\n", v));
                }
                o.push_str(&format!(
                    "    {}{}: {},\n",
                    if f.public { "pub " } else { "" },
                    f.name,
                    f.ty.render()
                ));
            }
            o.push_str("}\n");
            o
        }
        Item::Enum(e) => {
            let mut o = String::new();
            o.push_str("#[derive(Debug, Clone, Serialize, Deserialize)]\n");
            if let Some(r) = &e.rename_all {
                o.push_str(&format!("#[serde(rename_all = \"{}\")]\n", r));
            }
            o.push_str(&format!("pub enum {} {{\n", e.name));
            for v in &e.variants {
                if let Some(r) = &v.rename {
                    o.push_str(&format!("    #[serde(rename = \"{}\")]\n", r));
                }
                match &v.payload {
                    Some(t) => o.push_str(&format!("    {}({}),\n", v.name, t.render())),
                    None => o.push_str(&format!("    {},\n", v.name)),
                }
            }
            o.push_str("}\n");
            o
        }
        Item::Cmd(c) => {
            let mut o = String::new();
            if c.is_command {
                o.push_str(if c.short_attr {
                    "#[command]\n"
                } else {
                    "#[tauri::command]\n"
                });
            }
            let mut args: Vec<String> = Vec::new();
            if !c.emits.is_empty() {
                args.push("app: tauri::AppHandle".into());
            }
            for p in &c.params {
                args.push(format!("{}: {}", p.name, p.ty.render()));
            }
            for ch in &c.chans {
                match &ch.rename {
                    Some(rn) => args.push(format!("#[serde(rename = \"{}\")] {}: tauri::ipc::Channel<{}>", rn, ch.name, ch.msg.render())),
                    None => args.push(format!("{}: tauri::ipc::Channel<{}>", ch.name, ch.msg.render())),
                }
            }
            o.push_str(&format!(
                "pub {}fn {}({})",
                if c.is_async { "async " } else { "" },
                c.name,
                args.join(", ")
            ));
            if let Some(r) = &c.ret {
                o.push_str(&format!(" -> {}", r.render()));
            }
            o.push_str(" {\n");
            for e in &c.emits {
                if let Payload::Local { var, init } = &e.payload {
                    let rhs = match init {
                        LocalInit::Lit(t) => format!("{} {{ }}", t),
                        LocalInit::New(t) => format!("{}::new()", t),
                        LocalInit::Call => "compute_it()".to_string(),
                        LocalInit::Param(p) => p.clone(),
                    };
                    o.push_str(&format!("    let {} = {};\n", var, rhs));
                }
                let payload = match &e.payload {
                    Payload::Local { var, .. } => format!("{}.clone()", var),
                    Payload::Var(v) => format!("{}.clone()", v),
                    Payload::Lit(t) => format!("{} {{ }}", t),
                    Payload::Int => "42".into(),
                    Payload::Tuple => "(1, \"two\")".into(),
                    Payload::Str => "\"text\"".into(),
                    Payload::Bool => "true".into(),
                };
                if e.emit_to {
                    o.push_str(&format!(
                        "    app.emit_to(\"main\", \"{}\", {}).ok();\n",
                        e.event, payload
                    ));
                } else {
                    o.push_str(&format!("    app.emit(\"{}\", {}).ok();\n", e.event, payload));
                }
            }
            o.push_str("    todo!()\n}\n");
            o
        }
    }
}

pub fn render_file(f: &SrcFile) -> String {
    let mut o = String::from(FILE_HEADER);
    for it in &f.items {
        o.push('\n');
        o.push_str(&render_item(it));
    }
    o
}

impl Model {
    pub fn render(&self) -> BTreeMap<String, String> {
        self.files
            .iter()
            .map(|f| (f.path.clone(), render_file(f)))
            .collect()
    }
    pub fn commands(&self) -> Vec<&Command> {
        self.files
            .iter()
            .flat_map(|f| f.items.iter())
            .filter_map(|i| match i {
                Item::Cmd(c) if c.is_command => Some(c),
                _ => None,
            })
            .collect()
    }
    pub fn functions(&self) -> Vec<&Command> {
        self.files
            .iter()
            .flat_map(|f| f.items.iter())
            .filter_map(|i| match i {
                Item::Cmd(c) => Some(c),
                _ => None,
            })
            .collect()
    }
    pub fn structs(&self) -> Vec<&StructDef> {
        self.files
            .iter()
            .flat_map(|f| f.items.iter())
            .filter_map(|i| match i {
                Item::Struct(s) => Some(s),
                _ => None,
            })
            .collect()
    }
    pub fn enums(&self) -> Vec<&EnumDef> {
        self.files
            .iter()
            .flat_map(|f| f.items.iter())
            .filter_map(|i| match i {
                Item::Enum(s) => Some(s),
                _ => None,
            })
            .collect()
    }
    pub fn serde_type_names(&self) -> Vec<String> {
        let mut v: Vec<String> = self
            .structs()
            .iter()
            .filter(|s| s.serde)
            .map(|s| s.name.clone())
            .collect();
        v.extend(self.enums().iter().map(|e| e.name.clone()));
        v
    }
    pub fn all_names(&self) -> BTreeSet<String> {
        let mut s = BTreeSet::new();
        for f in &self.files {
            for it in &f.items {
                if let Some(n) = it.name() {
                    s.insert(n.to_string());
                }
            }
        }
        s
    }
    pub fn find_item_mut(&mut self, name: &str) -> Option<&mut Item> {
        for f in &mut self.files {
            for it in &mut f.items {
                if it.name() == Some(name) {
                    return Some(it);
                }
            }
        }
        None
    }
    pub fn struct_mut(&mut self, name: &str) -> Option<&mut StructDef> {
        match self.find_item_mut(name) {
            Some(Item::Struct(s)) => Some(s),
            _ => None,
        }
    }
    pub fn enum_mut(&mut self, name: &str) -> Option<&mut EnumDef> {
        match self.find_item_mut(name) {
            Some(Item::Enum(s)) => Some(s),
            _ => None,
        }
    }
    pub fn cmd_mut(&mut self, name: &str) -> Option<&mut Command> {
        match self.find_item_mut(name) {
            Some(Item::Cmd(s)) => Some(s),
            _ => None,
        }
    }
    /// ground-truth dependency edges between serde types (struct -> named field types)
    pub fn type_edges(&self) -> BTreeSet<(String, String)> {
        let names: BTreeSet<String> = self.serde_type_names().into_iter().collect();
        let mut e = BTreeSet::new();
        for s in self.structs() {
            if !s.serde {
                continue;
            }
            for f in &s.fields {
                if f.skip {
                    continue;
                }
                let mut ns = BTreeSet::new();
                f.ty.named(&mut ns);
                for n in ns {
                    if names.contains(&n) {
                        e.insert((s.name.clone(), n));
                    }
                }
            }
        }
        e
    }
    pub fn events(&self) -> Vec<(&Command, &Emit)> {
        let mut v = vec![];
        for c in self.functions() {
            for e in &c.emits {
                v.push((c, e));
            }
        }
        v
    }
}

// ---------------------------------------------------------------------------
// Random generation
// ---------------------------------------------------------------------------

pub const WORDS: &[&str] = &[
    "alpha", "bravo", "cargo", "delta", "ember", "fjord", "gamma", "hotel", "index", "joule",
    "kappa", "lemon", "metro", "noble", "omega", "polar", "quark", "radio", "sigma", "tango",
    "ultra", "vivid", "whale", "xenon", "yield_rate", "zebra", "amber", "birch", "cedar", "dune",
];
pub const PRIMS: &[&str] = &[
    "String", "i32", "u64", "f64", "bool", "u8", "i64", "usize", "f32", "u32",
];
pub const RENAME_RULES: &[&str] = &[
    "camelCase",
    "snake_case",
    "PascalCase",
    "SCREAMING_SNAKE_CASE",
    "kebab-case",
];

pub fn pascal(w: &str) -> String {
    w.split('_')
        .map(|p| {
            let mut c = p.chars();
            match c.next() {
                Some(f) => f.to_uppercase().collect::<String>() + c.as_str(),
                None => String::new(),
            }
        })
        .collect()
}

#[derive(Clone, Debug, Serialize, Deserialize)]
pub struct GenParams {
    pub n_files: usize,
    pub n_types: usize,
    pub n_cmds: usize,
    pub n_events: usize,
    pub n_decoys: usize,
    pub max_depth: usize,
    /// probability (percent) that a field/param leaf is a named type
    pub named_pct: u64,
    pub validators: bool,
    pub serde_attrs: bool,
    pub channels: bool,
    /// only tuple/map contexts the tool translates without garbling
    pub tame_contexts: bool,
    /// every event carries a tuple-literal payload
    #[serde(default)]
    pub tuple_events: bool,
    /// most events emit a `let`-bound local, the locals share two names
    #[serde(default)]
    pub local_heavy: bool,
}

impl GenParams {
    pub fn swarm(r: &mut Rng) -> GenParams {
        if r.chance(1, 14) {
            // a large project now and then: generated files beyond any 8 KiB buffer,
            // hash tables past several resizes, more commands than any small constant
            return GenParams {
                n_files: r.range(5, 10),
                n_types: r.range(12, 26),
                n_cmds: r.range(18, 40),
                n_events: r.range(3, 8),
                n_decoys: r.range(0, 3),
                max_depth: r.range(1, 2),
                named_pct: 60,
                validators: true,
                serde_attrs: true,
                channels: true,
                tame_contexts: true,
                tuple_events: false,
                local_heavy: false,
            };
        }
        GenParams {
            n_files: r.range(1, 6),
            n_types: r.range(0, 8),
            n_cmds: r.range(1, 8),
            n_events: r.range(0, 4),
            n_decoys: r.range(0, 3),
            max_depth: r.range(0, 2),
            named_pct: *r.pick(&[30, 50, 70]),
            validators: r.chance(1, 2),
            serde_attrs: r.chance(1, 2),
            channels: r.chance(1, 2),
            tame_contexts: r.chance(2, 3),
            tuple_events: r.chance(1, 12),
            local_heavy: false,
        }
    }
}

pub struct Namer {
    used: BTreeSet<String>,
    n: usize,
}
impl Namer {
    pub fn new() -> Namer {
        Namer { used: BTreeSet::new(), n: 0 }
    }
    pub fn from_model(m: &Model) -> Namer {
        let mut nm = Namer::new();
        nm.used = m.all_names();
        for f in &m.files {
            for it in &f.items {
                match it {
                    Item::Struct(s) => s.fields.iter().for_each(|f| {
                        nm.used.insert(f.name.clone());
                    }),
                    Item::Cmd(c) => {
                        c.params.iter().for_each(|p| {
                            nm.used.insert(p.name.clone());
                        });
                        c.emits.iter().for_each(|e| {
                            nm.used.insert(e.event.clone());
                        });
                    }
                    Item::Enum(e) => e.variants.iter().for_each(|v| {
                        nm.used.insert(v.name.clone());
                    }),
                    Item::Raw(_) => {}
                }
            }
        }
        nm.n = 1000 + nm.used.len();
        nm
    }
    pub fn fresh(&mut self, r: &mut Rng, style: &str) -> String {
        loop {
            let w = *r.pick(WORDS);
            self.n += 1;
            let w2 = *r.pick(WORDS);
            let n = self.n;
            // names vary in length, case, digits, underscores and shared prefixes
            let cand = match style {
                "type" => match r.below(8) {
                    0 => format!("{}{}{}", pascal(w), pascal(w2), n),
                    1 => format!("{}{}", w.chars().next().unwrap().to_uppercase(), n),
                    2 => format!("{}{}", w.to_uppercase().replace('_', ""), n),
                    3 => {
                        // shares a prefix with an existing type name
                        let existing: Vec<&String> = self
                            .used
                            .iter()
                            .filter(|u| u.chars().next().map(|c| c.is_uppercase()).unwrap_or(false) && u.chars().all(|c| c.is_ascii_alphanumeric()))
                            .collect();
                        if existing.is_empty() {
                            format!("{}{}", pascal(w), n)
                        } else {
                            format!("{}{}{}", r.pick(&existing), r.pick(&["Ext", "Id", "List", "s", "2"]), n)
                        }
                    }
                    4 => {
                        // differs from an existing type name only in the case of one letter
                        let existing: Vec<String> = self
                            .used
                            .iter()
                            .filter(|u| u.len() >= 3 && u.chars().next().map(|c| c.is_uppercase()).unwrap_or(false) && u.chars().all(|c| c.is_ascii_alphanumeric()))
                            .cloned()
                            .collect();
                        let mut out = format!("{}{}", pascal(w), n);
                        if !existing.is_empty() {
                            let e = r.pick(&existing).clone();
                            let idx: Vec<usize> = e.char_indices().skip(1).filter(|(_, c)| c.is_ascii_alphabetic()).map(|(i, _)| i).collect();
                            if !idx.is_empty() {
                                let k = *r.pick(&idx);
                                let mut b: Vec<char> = e.chars().collect();
                                b[k] = if b[k].is_uppercase() { b[k].to_ascii_lowercase() } else { b[k].to_ascii_uppercase() };
                                out = b.into_iter().collect();
                            }
                        }
                        out
                    }
                    _ => format!("{}{}", pascal(w), n),
                },
                "variant" => match r.below(4) {
                    0 => format!("{}{}{}", pascal(w), pascal(w2), n),
                    1 => format!("{}{}", w.to_uppercase().replace('_', ""), n),
                    _ => format!("{}{}", pascal(w), n),
                },
                "cmd" => match r.below(5) {
                    0 => format!("{}_{}_{}", w, w2, n),
                    1 => format!("{}{}", w.replace('_', ""), n),
                    _ => format!("{}_{}", w, n),
                },
                "field" => match r.below(9) {
                    0 => format!("{}_{}_{}", w, w2, n),
                    1 => format!("{}{}", &w[..1], n),
                    2 => format!("{}_{}_id", w, n),
                    3 => format!("_{}_{}", w, n),
                    4 => format!("{}_{}_{}_{}_{}", w, w2, w, w2, n),
                    5 => format!("{}{}_{}", w, n, w2),
                    _ => format!("{}_{}", w, n),
                },
                "event" => match r.below(6) {
                    0 => format!("{}_{}_{}", w, w2, n),
                    1 => format!("{}:{}-{}", w.replace('_', "-"), w2.replace('_', "-"), n),
                    2 => format!("{}.{}.{}", w.replace('_', ""), w2.replace('_', ""), n),
                    3 => format!("{}-{}", w.replace('_', "-").to_uppercase(), n),
                    _ => format!("{}-{}", w.replace('_', "-"), n),
                },
                _ => format!("{}{}", w, n),
            };
            if self.used.insert(cand.clone()) {
                return cand;
            }
        }
    }
}
impl Default for Namer {
    fn default() -> Self {
        Self::new()
    }
}

/// A random type expression; `named` are the type names a leaf may refer to.
pub fn gen_ty(r: &mut Rng, named: &[String], depth: usize, named_pct: u64, tame: bool) -> Ty {
    let leaf = |r: &mut Rng| -> Ty {
        if !named.is_empty() && r.chance(named_pct, 100) {
            Ty::Named(r.pick(named).clone())
        } else {
            Ty::Prim(r.pick(PRIMS).to_string())
        }
    };
    if depth == 0 {
        return leaf(r);
    }
    let k = r.below(if tame { 7 } else { 10 });
    let sub = |r: &mut Rng| Box::new(gen_ty(r, named, depth - 1, named_pct, tame));
    match k {
        0 | 1 => leaf(r),
        2 => Ty::Opt(sub(r)),
        3 => Ty::Vec(sub(r)),
        4 => Ty::HMap(Box::new(Ty::Prim("String".into())), sub(r)),
        5 => {
            if r.chance(1, 2) {
                Ty::HSet(Box::new(leaf(r)))
            } else {
                Ty::BSet(Box::new(leaf(r)))
            }
        }
        6 => Ty::BMap(Box::new(Ty::Prim("String".into())), sub(r)),
        7 => {
            let n = r.range(2, 3);
            Ty::Tup((0..n).map(|_| *sub(r)).collect())
        }
        8 => Ty::HMap(Box::new(leaf(r)), sub(r)),
        _ => Ty::Vec(Box::new(Ty::Tup(vec![*sub(r), leaf(r)]))),
    }
}

pub fn gen_validate(r: &mut Rng, ty: &Ty) -> Option<String> {
    let base = match ty {
        Ty::Opt(t) => t.as_ref(),
        t => t,
    };
    match base {
        Ty::Prim(p) if p == "String" => Some(
            match r.below(5) {
                0 => "email".to_string(),
                1 => "url".to_string(),
                2 => format!("length(min = {}, max = {})", r.range(1, 5), r.range(6, 90)),
                3 => format!("length(min = {})", r.range(1, 9)),
                _ => format!(
                    "length(min = {}, max = {}, message = \"bad {}\")",
                    r.range(1, 5),
                    r.range(6, 90),
                    r.pick(WORDS)
                ),
            },
        ),
        Ty::Prim(p) if ["i32", "u64", "f64", "u8", "i64", "usize", "f32", "u32"].contains(&p.as_str()) => {
            Some(match r.below(3) {
                0 => format!("range(min = {}, max = {})", r.range(0, 9), r.range(10, 999)),
                1 => format!("range(min = {})", r.range(0, 9)),
                _ => format!("range(max = {}, message = \"too big\")", r.range(10, 999)),
            })
        }
        Ty::Vec(_) => Some(format!("length(min = {}, max = {})", r.range(0, 2), r.range(3, 50))),
        _ => None,
    }
}

const FILE_POOL: &[&str] = &[
    "src/main.rs",
    "src/lib.rs",
    "src/commands/mod.rs",
    "src/commands/users.rs",
    "src/commands/files.rs",
    "src/models/mod.rs",
    "src/models/dto.rs",
    "src/events.rs",
    "src/util/deep/nested.rs",
    "src/state.rs",
    "src/events/mod.rs",
    "src/util/mod.rs",
];

pub fn gen_model(r: &mut Rng, p: &GenParams) -> Model {
    let mut nm = Namer::new();
    // files
    let mut pool: Vec<&str> = FILE_POOL.to_vec();
    r.shuffle(&mut pool);
    let n_files = p.n_files.clamp(1, pool.len());
    let mut files: Vec<SrcFile> = pool[..n_files]
        .iter()
        .map(|p| SrcFile { path: p.to_string(), items: vec![] })
        .collect();

    // types: index order is a topological order (i may depend on j < i)
    let mut type_names: Vec<String> = Vec::new();
    let mut items: Vec<Item> = Vec::new();
    for _ in 0..p.n_types {
        let name = nm.fresh(r, "type");
        if r.chance(1, 4) {
            let nv = r.range(1, 4);
            let variants = (0..nv)
                .map(|_| Variant {
                    name: nm.fresh(r, "variant"),
                    rename: if p.serde_attrs && r.chance(1, 5) {
                        Some(format!("v-{}", r.pick(WORDS)))
                    } else {
                        None
                    },
                    payload: None,
                })
                .collect();
            items.push(Item::Enum(EnumDef {
                name: name.clone(),
                variants,
                rename_all: if p.serde_attrs && r.chance(1, 3) {
                    Some(r.pick(RENAME_RULES).to_string())
                } else {
                    None
                },
            }));
        } else {
            let nf = r.range(1, 5);
            let fields = (0..nf)
                .map(|_| {
                    let ty = gen_ty(r, &type_names, p.max_depth, p.named_pct, p.tame_contexts);
                    Field {
                        name: nm.fresh(r, "field"),
                        validate: if p.validators && r.chance(1, 3) { gen_validate(r, &ty) } else { None },
                        ty,
                        public: r.chance(5, 6),
                        rename: if p.serde_attrs && r.chance(1, 6) {
                            Some(format!("{}X", r.pick(WORDS)))
                        } else {
                            None
                        },
                        skip: p.serde_attrs && r.chance(1, 12),
                    }
                })
                .collect();
            items.push(Item::Struct(StructDef {
                name: name.clone(),
                fields,
                rename_all: if p.serde_attrs && r.chance(1, 3) {
                    Some(r.pick(RENAME_RULES).to_string())
                } else {
                    None
                },
                serde: true,
                qualified_derive: r.chance(1, 8),
            }));
        }
        type_names.push(name);
    }
    // data-carrying variants: a third of the enums give one variant a payload naming an earlier
    // type (own stream, so that the rest of the project is what it was before this existed)
    {
        let mut er = r.split("enum-payloads");
        for idx in 1..items.len() {
            if let Item::Enum(e) = &mut items[idx] {
                if er.chance(1, 3) {
                    let t = Ty::Named(type_names[er.below(idx as u64) as usize].clone());
                    let v = er.below(e.variants.len() as u64) as usize;
                    e.variants[v].payload = Some(match er.below(3) {
                        0 => t,
                        1 => Ty::Vec(Box::new(t)),
                        _ => Ty::Opt(Box::new(t)),
                    });
                }
            }
        }
    }

    // commands
    let mut events_left = p.n_events;
    let n_cmds = p.n_cmds.max(1);
    for ci in 0..n_cmds {
        let np = r.range(0, 3);
        let params: Vec<Param> = (0..np)
            .map(|_| Param {
                name: nm.fresh(r, "field"),
                ty: gen_ty(r, &type_names, p.max_depth.min(1), p.named_pct, p.tame_contexts),
            })
            .collect();
        let ret = match r.below(4) {
            0 => None,
            1 => Some(gen_ty(r, &type_names, p.max_depth, p.named_pct, p.tame_contexts)),
            _ => Some(Ty::Res(
                Box::new(gen_ty(r, &type_names, p.max_depth, p.named_pct, p.tame_contexts)),
                "String".into(),
            )),
        };
        let chans = if p.channels && r.chance(1, 4) {
            vec![Chan {
                name: nm.fresh(r, "field"),
                msg: gen_ty(r, &type_names, 0, p.named_pct, true),
                rename: None,
            }]
        } else {
            vec![]
        };
        let mut emits = vec![];
        let remaining_cmds = n_cmds - ci;
        while events_left > 0 && (r.chance(1, 2) || events_left >= remaining_cmds) && emits.len() < 2 {
            events_left -= 1;
            let named_params: Vec<&Param> = params.iter().filter(|p| matches!(p.ty, Ty::Named(_))).collect();
            const ALL_LOCALS: &[&str] = &["status", "payload", "info"];
            #[allow(non_snake_case)]
            let LOCALS: &[&str] = if p.local_heavy { &ALL_LOCALS[..2] } else { ALL_LOCALS };
            let roll = if p.local_heavy && r.chance(3, 4) { 5 + r.below(3) } else { r.below(8) };
            let payload = match roll {
                5 if !type_names.is_empty() => Payload::Local { var: r.pick(LOCALS).to_string(), init: LocalInit::Lit(r.pick(&type_names).clone()) },
                6 if !type_names.is_empty() => Payload::Local { var: r.pick(LOCALS).to_string(), init: LocalInit::New(r.pick(&type_names).clone()) },
                5..=7 => Payload::Local { var: r.pick(LOCALS).to_string(), init: LocalInit::Call },
                0 if !named_params.is_empty() => Payload::Var(r.pick(&named_params).name.clone()),
                1 | 0 if !type_names.is_empty() => Payload::Lit(r.pick(&type_names).clone()),
                2 => Payload::Int,
                3 => Payload::Str,
                _ => Payload::Bool,
            };
            let payload = if p.tuple_events { Payload::Tuple } else { payload };
            emits.push(Emit { event: nm.fresh(r, "event"), payload, emit_to: r.chance(1, 5) });
            if emits.len() >= 2 {
                break;
            }
        }
        items.push(Item::Cmd(Command {
            name: nm.fresh(r, "cmd"),
            params,
            chans,
            ret,
            is_async: r.chance(1, 2),
            short_attr: r.chance(1, 6),
            emits,
            is_command: true,
        }));
    }

    // plain helper functions that emit events (no command attribute): event discovery looks at
    // every function, wherever it lives
    if r.chance(1, 3) {
        for _ in 0..r.range(1, 2) {
            let payload = match r.below(3) {
                0 if !type_names.is_empty() => Payload::Lit(r.pick(&type_names).clone()),
                1 => Payload::Str,
                _ => Payload::Int,
            };
            items.push(Item::Cmd(Command {
                name: nm.fresh(r, "cmd"),
                params: vec![],
                chans: vec![],
                ret: None,
                is_async: false,
                short_attr: false,
                emits: vec![Emit { event: nm.fresh(r, "event"), payload, emit_to: false }],
                is_command: false,
            }));
        }
    }
    // decoys: things the tool must ignore
    for _ in 0..p.n_decoys {
        items.push(gen_decoy(r, &mut nm));
    }

    r.shuffle(&mut items);
    for it in items {
        let k = r.below(files.len() as u64) as usize;
        files[k].items.push(it);
    }
    Model { files }
}

/// An item that must have no effect on the output: plain function, non-serde
/// struct, impl block, comment, const.
pub fn gen_decoy(r: &mut Rng, nm: &mut Namer) -> Item {
    match r.below(5) {
        0 => Item::Raw(format!(
            "// {} {} notes\n/* block comment about {} */\n",
            r.pick(WORDS),
            r.pick(WORDS),
            r.pick(WORDS)
        )),
        1 => Item::Raw(format!(
            "fn helper_{}(x: i32) -> i32 {{\n    let y = x + {};\n    y * 2\n}}\n",
            nm.fresh(r, "cmd"),
            r.range(1, 99)
        )),
        2 => Item::Struct(StructDef {
            name: nm.fresh(r, "type"),
            fields: vec![Field {
                name: nm.fresh(r, "field"),
                ty: Ty::Prim("i32".into()),
                public: true,
                rename: None,
                skip: false,
                validate: None,
            }],
            rename_all: None,
            serde: false,
            qualified_derive: false,
        }),
        3 => Item::Raw(format!(
            "pub const LIMIT_{}: usize = {};\n\nstatic NAME_{}: &str = \"{}\";\n",
            r.range(1, 9999),
            r.range(1, 99),
            r.range(1, 9999),
            r.pick(WORDS)
        )),
        _ => {
            let t = nm.fresh(r, "type");
            Item::Raw(format!(
                "pub struct {t}(pub i32);\n\nimpl {t} {{\n    pub fn get(&self) -> i32 {{\n        self.0\n    }}\n}}\n",
                t = t
            ))
        }
    }
}

/// Grow a project to `target` source files: many small files below a few more directories,
/// each with one plain command (two thirds) or only items the tool ignores (one third).
/// "For projects of any number of files": thresholds, batch sizes and capacities live here.
pub fn widen(m: &mut Model, r: &mut Rng, target: usize) {
    let mut nm = Namer::from_model(m);
    let mut k = 0usize;
    while m.files.len() < target {
        k += 1;
        let dir = ["src/bulk", "src/bulk/a", "src/bulk/b", "src/api/v1"][k % 4];
        let path = format!("{}/part_{:03}.rs", dir, k);
        let item = if r.chance(1, 3) {
            gen_decoy(r, &mut nm)
        } else {
            Item::Cmd(Command {
                name: nm.fresh(r, "cmd"),
                params: vec![Param { name: nm.fresh(r, "field"), ty: Ty::Prim(r.pick(PRIMS).to_string()) }],
                chans: vec![],
                ret: if r.chance(1, 2) { Some(Ty::Prim(r.pick(PRIMS).to_string())) } else { None },
                is_async: r.chance(1, 2),
                short_attr: false,
                emits: vec![],
                is_command: true,
            })
        };
        m.files.push(SrcFile { path, items: vec![item] });
    }
}
