//! Model-level shrinking: candidates ordered from most to least aggressive.

use crate::model::{Item, Model, Ty};

fn simpler_tys(t: &Ty) -> Vec<Ty> {
    let mut v = vec![];
    match t {
        Ty::Prim(p) => {
            if p != "i32" {
                v.push(Ty::Prim("i32".into()));
            }
        }
        Ty::Named(_) => v.push(Ty::Prim("i32".into())),
        Ty::Opt(x) | Ty::Vec(x) | Ty::HSet(x) | Ty::BSet(x) | Ty::Res(x, _) => {
            v.push((**x).clone());
        }
        Ty::HMap(k, x) | Ty::BMap(k, x) => {
            v.push((**x).clone());
            v.push((**k).clone());
        }
        Ty::Tup(xs) | Ty::Gen(_, xs) => {
            for x in xs {
                v.push(x.clone());
            }
        }
        Ty::Arr(x, _) => v.push((**x).clone()),
    }
    v
}

pub fn shrink_model(m: &Model) -> Vec<Model> {
    let mut out = vec![];
    // drop a whole file
    if m.files.len() > 1 {
        for i in 0..m.files.len() {
            let mut d = m.clone();
            d.files.remove(i);
            out.push(d);
        }
        // merge the last file into the first
        let mut d = m.clone();
        let last = d.files.pop().unwrap();
        d.files[0].items.extend(last.items);
        out.push(d);
    }
    // drop one item
    for (fi, f) in m.files.iter().enumerate() {
        for ii in 0..f.items.len() {
            let mut d = m.clone();
            d.files[fi].items.remove(ii);
            out.push(d);
        }
    }
    // inside items
    for (fi, f) in m.files.iter().enumerate() {
        for (ii, it) in f.items.iter().enumerate() {
            match it {
                Item::Struct(s) => {
                    for k in 0..s.fields.len() {
                        if s.fields.len() > 1 {
                            let mut d = m.clone();
                            if let Item::Struct(x) = &mut d.files[fi].items[ii] {
                                x.fields.remove(k);
                            }
                            out.push(d);
                        }
                        for t in simpler_tys(&s.fields[k].ty) {
                            let mut d = m.clone();
                            if let Item::Struct(x) = &mut d.files[fi].items[ii] {
                                x.fields[k].ty = t;
                                x.fields[k].validate = None;
                            }
                            out.push(d);
                        }
                        let fld = &s.fields[k];
                        if fld.rename.is_some() || fld.validate.is_some() || fld.skip || !fld.public {
                            let mut d = m.clone();
                            if let Item::Struct(x) = &mut d.files[fi].items[ii] {
                                x.fields[k].rename = None;
                                x.fields[k].validate = None;
                                x.fields[k].skip = false;
                                x.fields[k].public = true;
                            }
                            out.push(d);
                        }
                    }
                    if s.rename_all.is_some() {
                        let mut d = m.clone();
                        if let Item::Struct(x) = &mut d.files[fi].items[ii] {
                            x.rename_all = None;
                        }
                        out.push(d);
                    }
                }
                Item::Enum(e) => {
                    for k in 0..e.variants.len() {
                        if e.variants.len() > 1 {
                            let mut d = m.clone();
                            if let Item::Enum(x) = &mut d.files[fi].items[ii] {
                                x.variants.remove(k);
                            }
                            out.push(d);
                        }
                    }
                    if e.rename_all.is_some() || e.variants.iter().any(|v| v.rename.is_some()) {
                        let mut d = m.clone();
                        if let Item::Enum(x) = &mut d.files[fi].items[ii] {
                            x.rename_all = None;
                            x.variants.iter_mut().for_each(|v| v.rename = None);
                        }
                        out.push(d);
                    }
                }
                Item::Cmd(c) => {
                    for k in 0..c.params.len() {
                        let mut d = m.clone();
                        if let Item::Cmd(x) = &mut d.files[fi].items[ii] {
                            let name = x.params[k].name.clone();
                            x.params.remove(k);
                            x.emits.retain(|e| e.payload != crate::model::Payload::Var(name.clone()));
                        }
                        out.push(d);
                        for t in simpler_tys(&c.params[k].ty) {
                            let mut d = m.clone();
                            if let Item::Cmd(x) = &mut d.files[fi].items[ii] {
                                x.params[k].ty = t;
                            }
                            out.push(d);
                        }
                    }
                    for k in 0..c.chans.len() {
                        let mut d = m.clone();
                        if let Item::Cmd(x) = &mut d.files[fi].items[ii] {
                            x.chans.remove(k);
                        }
                        out.push(d);
                    }
                    for k in 0..c.emits.len() {
                        let mut d = m.clone();
                        if let Item::Cmd(x) = &mut d.files[fi].items[ii] {
                            x.emits.remove(k);
                        }
                        out.push(d);
                    }
                    if let Some(r) = &c.ret {
                        let mut d = m.clone();
                        if let Item::Cmd(x) = &mut d.files[fi].items[ii] {
                            x.ret = None;
                        }
                        out.push(d);
                        for t in simpler_tys(r) {
                            let mut d = m.clone();
                            if let Item::Cmd(x) = &mut d.files[fi].items[ii] {
                                x.ret = Some(t);
                            }
                            out.push(d);
                        }
                    }
                }
                Item::Raw(_) => {}
            }
        }
    }
    out
}
