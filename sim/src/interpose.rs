//! The seam: this binary defines the libc entry points itself, so every call
//! std / walkdir / serde_json / chrono make on behalf of the tool arrives here
//! first.  A thread that carries a `SimCtx` is a *simulated process*; every other
//! thread (the harness itself, indicatif's ticker) is forwarded to the raw
//! system call untouched.
//!
//! Rules for this file: handlers never unwind, never draw from a PRNG unless a
//! decision is being made for the simulated process, never read a real clock.

#![allow(clippy::missing_safety_doc)]

use libc::{c_char, c_int, c_long, c_uint, c_void, mode_t, off_t, size_t, ssize_t};
use serde::{Deserialize, Serialize};
use std::cell::Cell;
use std::collections::BTreeMap;
use std::ffi::CStr;
use std::sync::atomic::{AtomicUsize, Ordering};

use crate::rng::Rng;

// ---------------------------------------------------------------------------
// Public data model
// ---------------------------------------------------------------------------

#[derive(Clone, Copy, Debug, PartialEq, Eq, PartialOrd, Ord, Serialize, Deserialize)]
pub enum Op {
    OpenW,
    OpenR,
    Write,
    Read,
    Close,
    Mkdir,
    Unlink,
    Rmdir,
    Rename,
    Truncate,
    Chmod,
    Link,
    Symlink,
    Utimens,
    Fsync,
    CopyRange,
    /// a directory is opened for listing (`opendir`): a read-side fault point
    OpenDir,
}

impl Op {
    pub fn name(self) -> &'static str {
        match self {
            Op::OpenW => "open_w",
            Op::OpenR => "open_r",
            Op::Write => "write",
            Op::Read => "read",
            Op::Close => "close",
            Op::Mkdir => "mkdir",
            Op::Unlink => "unlink",
            Op::Rmdir => "rmdir",
            Op::Rename => "rename",
            Op::Truncate => "truncate",
            Op::Chmod => "chmod",
            Op::Link => "link",
            Op::Symlink => "symlink",
            Op::Utimens => "utimens",
            Op::Fsync => "fsync",
            Op::CopyRange => "copy_range",
            Op::OpenDir => "opendir",
        }
    }
    /// Calls that can change the file system (fault points of the `Mut` class).
    pub fn is_mut(self) -> bool {
        !matches!(self, Op::OpenR | Op::Read | Op::OpenDir)
    }
}

#[derive(Clone, Debug, PartialEq, Eq, Serialize, Deserialize)]
pub enum FaultKind {
    /// the call fails with this errno, nothing reaches the disk
    Err(i32),
    /// write persists `k` bytes, then fails with errno
    WriteErrAfter { k: usize, errno: i32 },
    /// write persists `k` bytes and reports `k` (legal; std's write_all continues)
    ShortWrite { k: usize },
    /// read returns at most k bytes (legal)
    ShortRead { k: usize },
    /// EINTR once, nothing done
    Eintr,
    /// the process dies just before this call
    CrashBefore,
    /// the call completes, then the process dies
    CrashAfter,
    /// write persists k bytes, then the process dies
    Torn { k: usize },
}

impl FaultKind {
    pub fn label(&self) -> &'static str {
        match self {
            FaultKind::Err(_) => "err",
            FaultKind::WriteErrAfter { .. } => "write_err_after",
            FaultKind::ShortWrite { .. } => "short_write",
            FaultKind::ShortRead { .. } => "short_read",
            FaultKind::Eintr => "eintr",
            FaultKind::CrashBefore => "crash_before",
            FaultKind::CrashAfter => "crash_after",
            FaultKind::Torn { .. } => "torn",
        }
    }
    pub fn is_crash(&self) -> bool {
        matches!(
            self,
            FaultKind::CrashBefore | FaultKind::CrashAfter | FaultKind::Torn { .. }
        )
    }
    /// std masks it: the run must behave as if nothing happened
    pub fn is_masked(&self) -> bool {
        matches!(
            self,
            FaultKind::ShortWrite { .. } | FaultKind::ShortRead { .. } | FaultKind::Eintr
        )
    }
}

#[derive(Clone, Debug, PartialEq, Eq, Serialize, Deserialize)]
pub enum FaultAt {
    /// k-th call (0-based) among mutating calls of this process
    Mut(usize),
    /// k-th call among read-side calls (open for reading, read)
    Read(usize),
    /// n-th call of `op` whose world-relative path ends with `suffix`
    PathOp { suffix: String, op: Op, nth: usize },
    /// EVERY call that would add or remove an entry of the directory whose path ends with
    /// `dir_suffix` (create, unlink, mkdir, rmdir, rename): a directory without write
    /// permission. Writing to files that already exist there still works.
    DirReadOnly { dir_suffix: String },
}

#[derive(Clone, Debug, PartialEq, Eq, Serialize, Deserialize)]
pub struct FaultSpec {
    pub at: FaultAt,
    pub kind: FaultKind,
}

#[derive(Clone, Debug, Serialize, Deserialize)]
pub struct ClockSpec {
    /// seconds since the epoch at process start
    pub start_s: i64,
    /// advance per clock read, ns
    pub step_ns: i64,
    /// (index of CLOCK_REALTIME read, jump in ns) applied before that read
    pub jumps: Vec<(u32, i64)>,
}

impl Default for ClockSpec {
    fn default() -> Self {
        ClockSpec {
            start_s: 1_790_000_000,
            step_ns: 1_000,
            jumps: vec![],
        }
    }
}

/// Everything that decides one simulated process.
#[derive(Clone, Debug, Serialize, Deserialize)]
pub struct ProcSpec {
    pub hash_keys: [u64; 2],
    pub clock: ClockSpec,
    /// seed of the directory-order permutation stream (0 = keep kernel order)
    pub readdir_seed: u64,
    /// Some(seed): writes are randomly split into short writes
    pub chunk_seed: Option<u64>,
    pub faults: Vec<FaultSpec>,
    /// record read-side events too
    #[serde(default)]
    pub trace_reads: bool,
    /// mutating calls on paths outside this directory are refused (EACCES) and traced with
    /// fault "jail": a simulated process must not be able to damage anything but its world
    #[serde(default)]
    pub jail: Option<String>,
}

impl ProcSpec {
    pub fn plain(keys: u64) -> Self {
        ProcSpec {
            hash_keys: [keys, keys.rotate_left(17) ^ 0x9e37_79b9_7f4a_7c15],
            clock: ClockSpec::default(),
            readdir_seed: keys ^ 0x5555,
            chunk_seed: None,
            faults: vec![],
            trace_reads: false,
            jail: None,
        }
    }
}

#[derive(Clone, Debug, Serialize, Deserialize)]
pub struct Event {
    pub seq: u32,
    /// index among mutating calls, if mutating
    pub mseq: Option<u32>,
    /// index among read-side calls
    pub rseq: Option<u32>,
    pub op: Op,
    /// absolute, symlink-resolved path the call acts on
    pub path: String,
    /// second path (rename/link target), else empty
    pub path2: String,
    pub flags: i32,
    pub len: u64,
    pub ret: i64,
    pub errno: i32,
    pub fault: Option<String>,
    /// the object at `path` existed when the call was made
    pub existed: bool,
    /// the call was swallowed because the process is already dead
    pub frozen: bool,
}

struct FdInfo {
    path: String,
    write: bool,
    null: bool,
}

struct DirState {
    entries: Vec<Vec<u64>>,
    pos: usize,
}

pub struct SimCtx {
    pub spec: ProcSpec,
    rng: Rng,
    dir_rng: Rng,
    chunk_rng: Rng,
    getrandom_calls: u32,
    real_reads: u32,
    real_ns: i128,
    mono_ns: i128,
    fds: BTreeMap<i32, FdInfo>,
    dirs: BTreeMap<usize, DirState>,
    pub trace: Vec<Event>,
    seq: u32,
    mseq: u32,
    rseq: u32,
    pathop_counts: BTreeMap<(u8, String), usize>,
    pub frozen: bool,
    /// set by the caller of `fault_for`: the object the call acts on exists
    cur_existed: bool,
    pub stdout: Vec<u8>,
    pub stderr: Vec<u8>,
    pub fired: Vec<(String, String)>,
    pub counts: BTreeMap<&'static str, u64>,
    pub sim_ns_advanced: i128,
    busy: bool,
}

impl SimCtx {
    pub fn new(spec: ProcSpec) -> Box<SimCtx> {
        let k = spec.hash_keys[0] ^ spec.hash_keys[1].rotate_left(31);
        Box::new(SimCtx {
            rng: Rng::new(k ^ 0x1111),
            dir_rng: Rng::new(spec.readdir_seed),
            chunk_rng: Rng::new(spec.chunk_seed.unwrap_or(0)),
            getrandom_calls: 0,
            real_reads: 0,
            real_ns: spec.clock.start_s as i128 * 1_000_000_000,
            mono_ns: 1_000_000_000,
            fds: BTreeMap::new(),
            dirs: BTreeMap::new(),
            trace: Vec::with_capacity(128),
            seq: 0,
            mseq: 0,
            rseq: 0,
            pathop_counts: BTreeMap::new(),
            frozen: false,
            cur_existed: true,
            stdout: Vec::with_capacity(4096),
            stderr: Vec::with_capacity(1024),
            fired: vec![],
            counts: BTreeMap::new(),
            sim_ns_advanced: 0,
            busy: false,
            spec,
        })
    }
    #[allow(clippy::too_many_arguments)]
    fn push_jail(&mut self, op: Op, m: Option<u32>, r: Option<u32>, path: String, path2: String, flags: i32, existed: bool) {
        let seq = self.seq;
        self.seq += 1;
        self.fired.push(("jail".to_string(), format!("{}:{}", op.name(), path)));
        self.trace.push(Event {
            seq,
            mseq: m,
            rseq: r,
            op,
            path,
            path2,
            flags,
            len: 0,
            ret: -1,
            errno: libc::EACCES,
            fault: Some("jail".to_string()),
            existed,
            frozen: false,
        });
    }
    fn count(&mut self, sym: &'static str) {
        *self.counts.entry(sym).or_insert(0) += 1;
    }

    /// Register a fault point and return the fault that applies, if any.
    fn fault_for(&mut self, op: Op, path: &str) -> (Option<u32>, Option<u32>, Option<FaultKind>) {
        let (m, r) = if op.is_mut() {
            let m = self.mseq;
            self.mseq += 1;
            (Some(m), None)
        } else {
            let r = self.rseq;
            self.rseq += 1;
            (None, Some(r))
        };
        if self.frozen {
            return (m, r, None);
        }
        let mut hit: Option<usize> = None;
        for (i, f) in self.spec.faults.iter().enumerate() {
            let matched = match &f.at {
                FaultAt::Mut(k) => m == Some(*k as u32),
                FaultAt::Read(k) => r == Some(*k as u32),
                FaultAt::DirReadOnly { dir_suffix } => {
                    let parent = path.rsplit_once('/').map(|x| x.0).unwrap_or("");
                    parent.ends_with(dir_suffix.as_str())
                        && (matches!(op, Op::Unlink | Op::Rmdir | Op::Mkdir | Op::Rename | Op::Link | Op::Symlink) || (op == Op::OpenW && !self.cur_existed))
                }
                FaultAt::PathOp { suffix, op: fop, nth } => {
                    if *fop == op && path.ends_with(suffix.as_str()) {
                        let key = (i as u8, suffix.clone());
                        let c = self.pathop_counts.entry(key).or_insert(0);
                        let is = *c == *nth;
                        *c += 1;
                        is
                    } else {
                        false
                    }
                }
            };
            if matched && hit.is_none() {
                hit = Some(i);
            }
        }
        let kind = hit.map(|i| self.spec.faults[i].kind.clone());
        (m, r, kind)
    }

    #[allow(clippy::too_many_arguments)]
    fn push(
        &mut self,
        op: Op,
        m: Option<u32>,
        r: Option<u32>,
        path: String,
        path2: String,
        flags: i32,
        len: u64,
        ret: i64,
        errno: i32,
        fault: Option<&FaultKind>,
        existed: bool,
        frozen: bool,
    ) {
        if !op.is_mut() && !self.spec.trace_reads && fault.is_none() {
            return;
        }
        if let Some(f) = fault {
            self.fired
                .push((f.label().to_string(), format!("{}:{}", op.name(), path)));
        }
        let seq = self.seq;
        self.seq += 1;
        self.trace.push(Event {
            seq,
            mseq: m,
            rseq: r,
            op,
            path,
            path2,
            flags,
            len,
            ret,
            errno,
            fault: fault.map(|f| format!("{:?}", f)),
            existed,
            frozen,
        });
    }
}

// ---------------------------------------------------------------------------
// Per-thread context pointer
// ---------------------------------------------------------------------------

thread_local! {
    static CTX: Cell<*mut SimCtx> = const { Cell::new(std::ptr::null_mut()) };
}

/// Install a context on the calling thread (start of a simulated process).
pub fn install(ctx: Box<SimCtx>) {
    CTX.with(|c| c.set(Box::into_raw(ctx)));
}

/// Remove and return the context of the calling thread.
pub fn uninstall() -> Option<Box<SimCtx>> {
    CTX.with(|c| {
        let p = c.replace(std::ptr::null_mut());
        if p.is_null() {
            None
        } else {
            Some(unsafe { Box::from_raw(p) })
        }
    })
}

#[inline]
fn cur() -> Option<&'static mut SimCtx> {
    let p = CTX.try_with(|c| c.get()).unwrap_or(std::ptr::null_mut());
    if p.is_null() {
        return None;
    }
    let c = unsafe { &mut *p };
    if c.busy {
        None
    } else {
        Some(c)
    }
}

struct Busy(*mut SimCtx);
impl Busy {
    fn new(c: &mut SimCtx) -> Busy {
        c.busy = true;
        Busy(c as *mut SimCtx)
    }
}
impl Drop for Busy {
    fn drop(&mut self) {
        unsafe { (*self.0).busy = false };
    }
}

#[inline]
unsafe fn set_errno(e: c_int) {
    *libc::__errno_location() = e;
}
#[inline]
unsafe fn get_errno() -> c_int {
    *libc::__errno_location()
}

// ---------------------------------------------------------------------------
// Raw system calls (the "real" implementations)
// ---------------------------------------------------------------------------

unsafe fn real_openat(dirfd: c_int, path: *const c_char, flags: c_int, mode: mode_t) -> c_int {
    libc::syscall(libc::SYS_openat, dirfd as c_long, path, flags as c_long, mode as c_long) as c_int
}
unsafe fn real_write(fd: c_int, buf: *const c_void, n: size_t) -> ssize_t {
    libc::syscall(libc::SYS_write, fd as c_long, buf, n) as ssize_t
}
unsafe fn real_read(fd: c_int, buf: *mut c_void, n: size_t) -> ssize_t {
    libc::syscall(libc::SYS_read, fd as c_long, buf, n) as ssize_t
}
unsafe fn real_close(fd: c_int) -> c_int {
    libc::syscall(libc::SYS_close, fd as c_long) as c_int
}
unsafe fn real_mkdirat(dirfd: c_int, path: *const c_char, mode: mode_t) -> c_int {
    libc::syscall(libc::SYS_mkdirat, dirfd as c_long, path, mode as c_long) as c_int
}
unsafe fn real_unlinkat(dirfd: c_int, path: *const c_char, flags: c_int) -> c_int {
    libc::syscall(libc::SYS_unlinkat, dirfd as c_long, path, flags as c_long) as c_int
}
unsafe fn real_renameat2(
    od: c_int,
    op: *const c_char,
    nd: c_int,
    np: *const c_char,
    flags: c_uint,
) -> c_int {
    libc::syscall(libc::SYS_renameat2, od as c_long, op, nd as c_long, np, flags as c_long) as c_int
}

type ReaddirFn = unsafe extern "C" fn(*mut libc::DIR) -> *mut libc::dirent64;
type ClosedirFn = unsafe extern "C" fn(*mut libc::DIR) -> c_int;
type OpendirFn = unsafe extern "C" fn(*const c_char) -> *mut libc::DIR;
static REAL_OPENDIR: AtomicUsize = AtomicUsize::new(0);
static REAL_READDIR64: AtomicUsize = AtomicUsize::new(0);
static REAL_CLOSEDIR: AtomicUsize = AtomicUsize::new(0);

unsafe fn next_sym(cache: &AtomicUsize, name: &'static [u8]) -> usize {
    let mut p = cache.load(Ordering::Relaxed);
    if p == 0 {
        p = libc::dlsym(libc::RTLD_NEXT, name.as_ptr() as *const c_char) as usize;
        if p == 0 {
            libc::abort();
        }
        cache.store(p, Ordering::Relaxed);
    }
    p
}
unsafe fn real_readdir64(d: *mut libc::DIR) -> *mut libc::dirent64 {
    let f: ReaddirFn = std::mem::transmute(next_sym(&REAL_READDIR64, b"readdir64\0"));
    f(d)
}
unsafe fn real_opendir(p: *const c_char) -> *mut libc::DIR {
    let f: OpendirFn = std::mem::transmute(next_sym(&REAL_OPENDIR, b"opendir\0"));
    f(p)
}
unsafe fn real_closedir(d: *mut libc::DIR) -> c_int {
    let f: ClosedirFn = std::mem::transmute(next_sym(&REAL_CLOSEDIR, b"closedir\0"));
    f(d)
}

// ---------------------------------------------------------------------------
// Path resolution (called with `busy` set, so nothing re-enters the simulator)
// ---------------------------------------------------------------------------

fn lexical_join(base: &str, rel: &str) -> String {
    let mut parts: Vec<&str> = if rel.starts_with('/') {
        vec![]
    } else {
        base.split('/').filter(|s| !s.is_empty()).collect()
    };
    for comp in rel.split('/') {
        match comp {
            "" | "." => {}
            ".." => {
                parts.pop();
            }
            c => parts.push(c),
        }
    }
    let mut s = String::from("/");
    s.push_str(&parts.join("/"));
    s
}

unsafe fn cwd_string() -> String {
    let mut buf = [0u8; 4096];
    let r = libc::syscall(libc::SYS_getcwd, buf.as_mut_ptr(), buf.len());
    if r <= 0 {
        return "/".into();
    }
    CStr::from_ptr(buf.as_ptr() as *const c_char)
        .to_string_lossy()
        .into_owned()
}

unsafe fn dirfd_base(dirfd: c_int) -> String {
    if dirfd == libc::AT_FDCWD {
        return cwd_string();
    }
    let link = format!("/proc/self/fd/{}\0", dirfd);
    let mut buf = [0u8; 4096];
    let n = libc::readlink(
        link.as_ptr() as *const c_char,
        buf.as_mut_ptr() as *mut c_char,
        buf.len() - 1,
    );
    if n <= 0 {
        return cwd_string();
    }
    String::from_utf8_lossy(&buf[..n as usize]).into_owned()
}

unsafe fn realpath_str(p: &str) -> Option<String> {
    let c = std::ffi::CString::new(p).ok()?;
    let mut buf = [0u8; 4097];
    let r = libc::realpath(c.as_ptr(), buf.as_mut_ptr() as *mut c_char);
    if r.is_null() {
        None
    } else {
        Some(
            CStr::from_ptr(buf.as_ptr() as *const c_char)
                .to_string_lossy()
                .into_owned(),
        )
    }
}

unsafe fn lexists(p: &str) -> bool {
    let c = match std::ffi::CString::new(p) {
        Ok(c) => c,
        Err(_) => return false,
    };
    let mut st: libc::stat64 = std::mem::zeroed();
    libc::lstat64(c.as_ptr(), &mut st) == 0
}

/// Resolve to an absolute path with every symlink in the *existing* part
/// resolved. `follow_last`: also follow a symlink in the final component (what
/// open() without O_NOFOLLOW does); otherwise the final component is kept as
/// named (what unlink / rename / mkdir act on).
unsafe fn resolve(dirfd: c_int, path: *const c_char, follow_last: bool) -> String {
    if path.is_null() {
        return String::new();
    }
    let raw = CStr::from_ptr(path).to_string_lossy().into_owned();
    let abs = lexical_join(&dirfd_base(dirfd), &raw);
    if follow_last {
        if let Some(r) = realpath_str(&abs) {
            return r;
        }
    }
    // find the deepest existing ancestor, resolve it, append the rest
    let comps: Vec<&str> = abs.split('/').filter(|s| !s.is_empty()).collect();
    if comps.is_empty() {
        return "/".into();
    }
    let upto = if follow_last { comps.len() } else { comps.len() - 1 };
    let mut k = upto;
    loop {
        let prefix = format!("/{}", comps[..k].join("/"));
        if let Some(r) = realpath_str(&prefix) {
            let mut out = if r == "/" { String::new() } else { r };
            for c in &comps[k..] {
                out.push('/');
                out.push_str(c);
            }
            return if out.is_empty() { "/".into() } else { out };
        }
        if k == 0 {
            return abs;
        }
        k -= 1;
    }
}

fn jailed(c: &SimCtx, path: &str) -> bool {
    match &c.spec.jail {
        Some(j) => !(path == j || path.starts_with(&format!("{}/", j))),
        None => false,
    }
}

const WRITE_FLAGS: c_int = libc::O_WRONLY | libc::O_RDWR | libc::O_CREAT | libc::O_TRUNC | libc::O_APPEND;

// ---------------------------------------------------------------------------
// Handlers
// ---------------------------------------------------------------------------

unsafe fn do_open(c: &mut SimCtx, dirfd: c_int, path: *const c_char, flags: c_int, mode: mode_t) -> c_int {
    let _b = Busy::new(c);
    c.count("open");
    let writing = flags & WRITE_FLAGS != 0;
    let follow = flags & libc::O_NOFOLLOW == 0;
    let rp = resolve(dirfd, path, follow);
    // never simulate the standard streams' backing devices or /proc, /dev
    let special = rp.starts_with("/proc/")
        || rp.starts_with("/sys/")
        || (rp.starts_with("/dev/") && !rp.starts_with("/dev/shm/"));
    if special {
        return real_openat(dirfd, path, flags, mode);
    }
    let op = if writing { Op::OpenW } else { Op::OpenR };
    let existed = lexists(&rp);
    c.cur_existed = existed;
    let (m, r, fault) = c.fault_for(op, &rp);
    if writing && !c.frozen && jailed(c, &rp) {
        c.push_jail(op, m, r, rp, String::new(), flags, existed);
        set_errno(libc::EACCES);
        return -1;
    }
    if c.frozen {
        let fd = if writing {
            real_openat(libc::AT_FDCWD, b"/dev/null\0".as_ptr() as *const c_char, libc::O_WRONLY | libc::O_CLOEXEC, 0)
        } else {
            real_openat(dirfd, path, flags, mode)
        };
        let e = get_errno();
        if fd >= 0 {
            c.fds.insert(fd, FdInfo { path: rp.clone(), write: writing, null: writing });
        }
        c.push(op, m, r, rp, String::new(), flags, 0, fd as i64, if fd < 0 { e } else { 0 }, None, existed, true);
        set_errno(e);
        return fd;
    }
    match fault {
        Some(FaultKind::CrashBefore) => {
            c.frozen = true;
            let fd = if writing {
                real_openat(libc::AT_FDCWD, b"/dev/null\0".as_ptr() as *const c_char, libc::O_WRONLY | libc::O_CLOEXEC, 0)
            } else {
                real_openat(dirfd, path, flags, mode)
            };
            if fd >= 0 {
                c.fds.insert(fd, FdInfo { path: rp.clone(), write: writing, null: writing });
            }
            c.push(op, m, r, rp, String::new(), flags, 0, fd as i64, 0, Some(&FaultKind::CrashBefore), existed, true);
            fd
        }
        Some(FaultKind::Err(e)) => {
            c.push(op, m, r, rp, String::new(), flags, 0, -1, e, Some(&FaultKind::Err(e)), existed, false);
            set_errno(e);
            -1
        }
        Some(FaultKind::Eintr) => {
            c.push(op, m, r, rp, String::new(), flags, 0, -1, libc::EINTR, Some(&FaultKind::Eintr), existed, false);
            set_errno(libc::EINTR);
            -1
        }
        other => {
            let fd = real_openat(dirfd, path, flags, mode);
            let e = get_errno();
            if fd >= 0 {
                c.fds.insert(fd, FdInfo { path: rp.clone(), write: writing, null: false });
            }
            let crash_after = matches!(other, Some(FaultKind::CrashAfter));
            c.push(op, m, r, rp, String::new(), flags, 0, fd as i64, if fd < 0 { e } else { 0 },
                   if crash_after { other.as_ref() } else { None }, existed, false);
            if crash_after {
                c.frozen = true;
            }
            set_errno(e);
            fd
        }
    }
}

unsafe fn capture_std(c: &mut SimCtx, fd: c_int, buf: *const c_void, n: size_t) -> Option<ssize_t> {
    if (fd == 1 || fd == 2) && !c.fds.contains_key(&fd) {
        let s = std::slice::from_raw_parts(buf as *const u8, n);
        if fd == 1 {
            c.stdout.extend_from_slice(s);
        } else {
            c.stderr.extend_from_slice(s);
        }
        return Some(n as ssize_t);
    }
    None
}

unsafe fn do_write(c: &mut SimCtx, fd: c_int, buf: *const c_void, n: size_t) -> ssize_t {
    let _b = Busy::new(c);
    c.count("write");
    if let Some(r) = capture_std(c, fd, buf, n) {
        return r;
    }
    let (path, null) = match c.fds.get(&fd) {
        Some(i) => (i.path.clone(), i.null),
        None => return real_write(fd, buf, n), // not ours (pipe, eventfd, ...)
    };
    let (m, r, fault) = c.fault_for(Op::Write, &path);
    if c.frozen || null {
        c.push(Op::Write, m, r, path, String::new(), 0, n as u64, n as i64, 0, None, true, true);
        return n as ssize_t;
    }
    let clamp = |k: usize| -> usize { k.min(n) };
    match fault {
        Some(FaultKind::CrashBefore) => {
            c.frozen = true;
            c.push(Op::Write, m, r, path, String::new(), 0, n as u64, n as i64, 0, Some(&FaultKind::CrashBefore), true, true);
            n as ssize_t
        }
        Some(FaultKind::Torn { k }) => {
            let k = clamp(k);
            let mut done = 0usize;
            while done < k {
                let w = real_write(fd, (buf as *const u8).add(done) as *const c_void, k - done);
                if w <= 0 {
                    break;
                }
                done += w as usize;
            }
            c.frozen = true;
            c.push(Op::Write, m, r, path, String::new(), 0, n as u64, done as i64, 0, Some(&FaultKind::Torn { k }), true, false);
            n as ssize_t
        }
        Some(FaultKind::Err(e)) => {
            c.push(Op::Write, m, r, path, String::new(), 0, n as u64, -1, e, Some(&FaultKind::Err(e)), true, false);
            set_errno(e);
            -1
        }
        Some(FaultKind::WriteErrAfter { k, errno }) => {
            let k = clamp(k);
            let mut done = 0usize;
            while done < k {
                let w = real_write(fd, (buf as *const u8).add(done) as *const c_void, k - done);
                if w <= 0 {
                    break;
                }
                done += w as usize;
            }
            c.push(Op::Write, m, r, path, String::new(), 0, n as u64, -1, errno, Some(&FaultKind::WriteErrAfter { k, errno }), true, false);
            set_errno(errno);
            -1
        }
        Some(FaultKind::Eintr) => {
            c.push(Op::Write, m, r, path, String::new(), 0, n as u64, -1, libc::EINTR, Some(&FaultKind::Eintr), true, false);
            set_errno(libc::EINTR);
            -1
        }
        Some(FaultKind::ShortWrite { k }) if n >= 2 => {
            let k = clamp(k).clamp(1, n - 1);
            let w = real_write(fd, buf, k);
            let e = get_errno();
            c.push(Op::Write, m, r, path, String::new(), 0, n as u64, w as i64, 0, Some(&FaultKind::ShortWrite { k }), true, false);
            set_errno(e);
            w
        }
        other => {
            // buggify: random legal short write
            let mut len = n;
            let mut chunked = false;
            if c.spec.chunk_seed.is_some() && n >= 2 && c.chunk_rng.below(3) == 0 {
                len = 1 + c.chunk_rng.below((n - 1) as u64) as usize;
                chunked = true;
            }
            let w = real_write(fd, buf, len);
            let e = get_errno();
            let crash_after = matches!(other, Some(FaultKind::CrashAfter));
            let tag = if chunked { Some(FaultKind::ShortWrite { k: len }) } else { None };
            c.push(Op::Write, m, r, path, String::new(), 0, n as u64, w as i64, if w < 0 { e } else { 0 },
                   if crash_after { other.as_ref() } else { tag.as_ref() }, true, false);
            if crash_after {
                c.frozen = true;
            }
            set_errno(e);
            w
        }
    }
}

unsafe fn do_read(c: &mut SimCtx, fd: c_int, buf: *mut c_void, n: size_t) -> ssize_t {
    let _b = Busy::new(c);
    c.count("read");
    let path = match c.fds.get(&fd) {
        Some(i) => i.path.clone(),
        None => return real_read(fd, buf, n),
    };
    let (m, r, fault) = c.fault_for(Op::Read, &path);
    match fault {
        Some(FaultKind::Err(e)) => {
            c.push(Op::Read, m, r, path, String::new(), 0, n as u64, -1, e, Some(&FaultKind::Err(e)), true, false);
            set_errno(e);
            -1
        }
        Some(FaultKind::Eintr) => {
            c.push(Op::Read, m, r, path, String::new(), 0, n as u64, -1, libc::EINTR, Some(&FaultKind::Eintr), true, false);
            set_errno(libc::EINTR);
            -1
        }
        Some(FaultKind::ShortRead { k }) if n >= 2 => {
            let k = k.clamp(1, n - 1);
            let w = real_read(fd, buf, k);
            let e = get_errno();
            c.push(Op::Read, m, r, path, String::new(), 0, n as u64, w as i64, 0, Some(&FaultKind::ShortRead { k }), true, false);
            set_errno(e);
            w
        }
        Some(FaultKind::CrashBefore) | Some(FaultKind::CrashAfter) => {
            c.frozen = true;
            let w = real_read(fd, buf, n);
            let e = get_errno();
            c.push(Op::Read, m, r, path, String::new(), 0, n as u64, w as i64, 0, Some(&FaultKind::CrashBefore), true, false);
            set_errno(e);
            w
        }
        _ => {
            let w = real_read(fd, buf, n);
            let e = get_errno();
            c.push(Op::Read, m, r, path, String::new(), 0, n as u64, w as i64, if w < 0 { e } else { 0 }, None, true, false);
            set_errno(e);
            w
        }
    }
}

unsafe fn do_close(c: &mut SimCtx, fd: c_int) -> c_int {
    let _b = Busy::new(c);
    c.count("close");
    let info = c.fds.remove(&fd);
    match info {
        Some(i) if i.write => {
            let (m, r, fault) = c.fault_for(Op::Close, &i.path);
            let frozen = c.frozen;
            if !frozen && !i.null {
                // file times follow the simulated clock (read without advancing it)
                let ns = c.real_ns.max(0);
                let t = libc::timespec { tv_sec: (ns / 1_000_000_000) as libc::time_t, tv_nsec: (ns % 1_000_000_000) as c_long };
                let ts = [t, t];
                libc::syscall(libc::SYS_utimensat, fd as c_long, std::ptr::null::<c_char>(), ts.as_ptr(), 0 as c_long);
            }
            match fault {
                Some(FaultKind::CrashBefore) | Some(FaultKind::CrashAfter) if !frozen => {
                    let ret = real_close(fd);
                    c.push(Op::Close, m, r, i.path, String::new(), 0, 0, ret as i64, 0, fault.as_ref(), true, false);
                    c.frozen = true;
                    ret
                }
                Some(FaultKind::Err(e)) if !frozen => {
                    // the descriptor is released, the error is reported (EIO on close)
                    real_close(fd);
                    c.push(Op::Close, m, r, i.path, String::new(), 0, 0, -1, e, Some(&FaultKind::Err(e)), true, false);
                    set_errno(e);
                    -1
                }
                _ => {
                    let ret = real_close(fd);
                    let e = get_errno();
                    c.push(Op::Close, m, r, i.path, String::new(), 0, 0, ret as i64, 0, None, true, frozen);
                    set_errno(e);
                    ret
                }
            }
        }
        _ => real_close(fd),
    }
}

/// Generic two-outcome mutating call on one path (mkdir, unlink, rmdir, ...).
unsafe fn do_simple(
    c: &mut SimCtx,
    sym: &'static str,
    op: Op,
    dirfd: c_int,
    path: *const c_char,
    flags: i32,
    len: u64,
    real: &dyn Fn() -> c_int,
) -> c_int {
    let _b = Busy::new(c);
    c.count(sym);
    let rp = resolve(dirfd, path, false);
    let existed = lexists(&rp);
    c.cur_existed = existed;
    let (m, r, fault) = c.fault_for(op, &rp);
    if !c.frozen && jailed(c, &rp) && !(op == Op::Mkdir && existed) {
        c.push_jail(op, m, r, rp, String::new(), flags, existed);
        set_errno(libc::EACCES);
        return -1;
    }
    if c.frozen {
        c.push(op, m, r, rp, String::new(), flags, len, 0, 0, None, existed, true);
        return 0;
    }
    match fault {
        Some(FaultKind::CrashBefore) => {
            c.frozen = true;
            c.push(op, m, r, rp, String::new(), flags, len, 0, 0, Some(&FaultKind::CrashBefore), existed, true);
            0
        }
        Some(FaultKind::Err(e)) => {
            c.push(op, m, r, rp, String::new(), flags, len, -1, e, Some(&FaultKind::Err(e)), existed, false);
            set_errno(e);
            -1
        }
        other => {
            let ret = real();
            let e = get_errno();
            let crash_after = matches!(other, Some(FaultKind::CrashAfter));
            c.push(op, m, r, rp, String::new(), flags, len, ret as i64, if ret < 0 { e } else { 0 },
                   if crash_after { other.as_ref() } else { None }, existed, false);
            if crash_after {
                c.frozen = true;
            }
            set_errno(e);
            ret
        }
    }
}

/// Mutating call on two paths (rename, link, symlink).
#[allow(clippy::too_many_arguments)]
unsafe fn do_two(
    c: &mut SimCtx,
    sym: &'static str,
    op: Op,
    d1: c_int,
    p1: *const c_char,
    d2: c_int,
    p2: *const c_char,
    real: &dyn Fn() -> c_int,
) -> c_int {
    let _b = Busy::new(c);
    c.count(sym);
    let a = if op == Op::Symlink {
        CStr::from_ptr(p1).to_string_lossy().into_owned()
    } else {
        resolve(d1, p1, false)
    };
    let b = resolve(d2, p2, false);
    // `path` is the object whose content/identity is destroyed or created
    let (primary, secondary) = match op {
        Op::Rename => (a.clone(), b.clone()),
        _ => (b.clone(), a.clone()),
    };
    let existed = lexists(&primary);
    let existed2 = lexists(&secondary);
    let (m, r, fault) = c.fault_for(op, &primary);
    let flags = existed2 as i32;
    if !c.frozen && (jailed(c, &primary) || (op != Op::Symlink && jailed(c, &secondary))) {
        c.push_jail(op, m, r, primary, secondary, flags, existed);
        set_errno(libc::EACCES);
        return -1;
    }
    if c.frozen {
        c.push(op, m, r, primary, secondary, flags, 0, 0, 0, None, existed, true);
        return 0;
    }
    match fault {
        Some(FaultKind::CrashBefore) => {
            c.frozen = true;
            c.push(op, m, r, primary, secondary, flags, 0, 0, 0, Some(&FaultKind::CrashBefore), existed, true);
            0
        }
        Some(FaultKind::Err(e)) => {
            c.push(op, m, r, primary, secondary, flags, 0, -1, e, Some(&FaultKind::Err(e)), existed, false);
            set_errno(e);
            -1
        }
        other => {
            let ret = real();
            let e = get_errno();
            let crash_after = matches!(other, Some(FaultKind::CrashAfter));
            c.push(op, m, r, primary, secondary, flags, 0, ret as i64, if ret < 0 { e } else { 0 },
                   if crash_after { other.as_ref() } else { None }, existed, false);
            if crash_after {
                c.frozen = true;
            }
            set_errno(e);
            ret
        }
    }
}

/// fd-based mutating call (ftruncate, fchmod, fsync, futimens)
unsafe fn do_fd(c: &mut SimCtx, sym: &'static str, op: Op, fd: c_int, len: u64, real: &dyn Fn() -> c_int) -> c_int {
    let _b = Busy::new(c);
    c.count(sym);
    let path = match c.fds.get(&fd) {
        Some(i) => i.path.clone(),
        None => format!("fd:{}", fd),
    };
    let (m, r, fault) = c.fault_for(op, &path);
    if c.frozen {
        c.push(op, m, r, path, String::new(), 0, len, 0, 0, None, true, true);
        return 0;
    }
    match fault {
        Some(FaultKind::CrashBefore) => {
            c.frozen = true;
            c.push(op, m, r, path, String::new(), 0, len, 0, 0, Some(&FaultKind::CrashBefore), true, true);
            0
        }
        Some(FaultKind::Err(e)) => {
            c.push(op, m, r, path, String::new(), 0, len, -1, e, Some(&FaultKind::Err(e)), true, false);
            set_errno(e);
            -1
        }
        other => {
            let ret = real();
            let e = get_errno();
            let crash_after = matches!(other, Some(FaultKind::CrashAfter));
            c.push(op, m, r, path, String::new(), 0, len, ret as i64, if ret < 0 { e } else { 0 },
                   if crash_after { other.as_ref() } else { None }, true, false);
            if crash_after {
                c.frozen = true;
            }
            set_errno(e);
            ret
        }
    }
}

// ---------------------------------------------------------------------------
// Exported symbols
// ---------------------------------------------------------------------------

#[no_mangle]
pub unsafe extern "C" fn open(path: *const c_char, flags: c_int, mode: mode_t) -> c_int {
    match cur() {
        Some(c) => do_open(c, libc::AT_FDCWD, path, flags, mode),
        None => real_openat(libc::AT_FDCWD, path, flags, mode),
    }
}
#[no_mangle]
pub unsafe extern "C" fn open64(path: *const c_char, flags: c_int, mode: mode_t) -> c_int {
    match cur() {
        Some(c) => do_open(c, libc::AT_FDCWD, path, flags | libc::O_LARGEFILE, mode),
        None => real_openat(libc::AT_FDCWD, path, flags | libc::O_LARGEFILE, mode),
    }
}
#[no_mangle]
pub unsafe extern "C" fn openat(dirfd: c_int, path: *const c_char, flags: c_int, mode: mode_t) -> c_int {
    match cur() {
        Some(c) => do_open(c, dirfd, path, flags, mode),
        None => real_openat(dirfd, path, flags, mode),
    }
}
#[no_mangle]
pub unsafe extern "C" fn openat64(dirfd: c_int, path: *const c_char, flags: c_int, mode: mode_t) -> c_int {
    match cur() {
        Some(c) => do_open(c, dirfd, path, flags | libc::O_LARGEFILE, mode),
        None => real_openat(dirfd, path, flags | libc::O_LARGEFILE, mode),
    }
}
#[no_mangle]
pub unsafe extern "C" fn creat(path: *const c_char, mode: mode_t) -> c_int {
    let flags = libc::O_CREAT | libc::O_WRONLY | libc::O_TRUNC;
    match cur() {
        Some(c) => do_open(c, libc::AT_FDCWD, path, flags, mode),
        None => real_openat(libc::AT_FDCWD, path, flags, mode),
    }
}
#[no_mangle]
pub unsafe extern "C" fn creat64(path: *const c_char, mode: mode_t) -> c_int {
    creat(path, mode)
}

#[no_mangle]
pub unsafe extern "C" fn write(fd: c_int, buf: *const c_void, n: size_t) -> ssize_t {
    match cur() {
        Some(c) => do_write(c, fd, buf, n),
        None => real_write(fd, buf, n),
    }
}
#[no_mangle]
pub unsafe extern "C" fn writev(fd: c_int, iov: *const libc::iovec, cnt: c_int) -> ssize_t {
    match cur() {
        Some(c) => {
            // flatten; the simulated process sees one write of the total length
            let mut flat: Vec<u8> = Vec::new();
            {
                let _b = Busy::new(c);
                for i in 0..cnt.max(0) as usize {
                    let v = &*iov.add(i);
                    flat.extend_from_slice(std::slice::from_raw_parts(v.iov_base as *const u8, v.iov_len));
                }
            }
            do_write(c, fd, flat.as_ptr() as *const c_void, flat.len())
        }
        None => libc::syscall(libc::SYS_writev, fd as c_long, iov, cnt as c_long) as ssize_t,
    }
}
#[no_mangle]
pub unsafe extern "C" fn pwrite64(fd: c_int, buf: *const c_void, n: size_t, off: off_t) -> ssize_t {
    match cur() {
        Some(c) => {
            let real = || libc::syscall(libc::SYS_pwrite64, fd as c_long, buf, n, off) as c_int;
            let r = do_fd(c, "pwrite64", Op::Write, fd, n as u64, &real);
            if r == 0 && c.frozen { n as ssize_t } else { r as ssize_t }
        }
        None => libc::syscall(libc::SYS_pwrite64, fd as c_long, buf, n, off) as ssize_t,
    }
}
#[no_mangle]
pub unsafe extern "C" fn read(fd: c_int, buf: *mut c_void, n: size_t) -> ssize_t {
    match cur() {
        Some(c) => do_read(c, fd, buf, n),
        None => real_read(fd, buf, n),
    }
}
#[no_mangle]
pub unsafe extern "C" fn close(fd: c_int) -> c_int {
    match cur() {
        Some(c) => do_close(c, fd),
        None => real_close(fd),
    }
}

#[no_mangle]
pub unsafe extern "C" fn mkdir(path: *const c_char, mode: mode_t) -> c_int {
    match cur() {
        Some(c) => do_simple(c, "mkdir", Op::Mkdir, libc::AT_FDCWD, path, 0, 0, &|| real_mkdirat(libc::AT_FDCWD, path, mode)),
        None => real_mkdirat(libc::AT_FDCWD, path, mode),
    }
}
#[no_mangle]
pub unsafe extern "C" fn mkdirat(dirfd: c_int, path: *const c_char, mode: mode_t) -> c_int {
    match cur() {
        Some(c) => do_simple(c, "mkdirat", Op::Mkdir, dirfd, path, 0, 0, &|| real_mkdirat(dirfd, path, mode)),
        None => real_mkdirat(dirfd, path, mode),
    }
}
#[no_mangle]
pub unsafe extern "C" fn unlink(path: *const c_char) -> c_int {
    match cur() {
        Some(c) => do_simple(c, "unlink", Op::Unlink, libc::AT_FDCWD, path, 0, 0, &|| real_unlinkat(libc::AT_FDCWD, path, 0)),
        None => real_unlinkat(libc::AT_FDCWD, path, 0),
    }
}
#[no_mangle]
pub unsafe extern "C" fn unlinkat(dirfd: c_int, path: *const c_char, flags: c_int) -> c_int {
    match cur() {
        Some(c) => {
            let op = if flags & libc::AT_REMOVEDIR != 0 { Op::Rmdir } else { Op::Unlink };
            do_simple(c, "unlinkat", op, dirfd, path, flags, 0, &|| real_unlinkat(dirfd, path, flags))
        }
        None => real_unlinkat(dirfd, path, flags),
    }
}
#[no_mangle]
pub unsafe extern "C" fn rmdir(path: *const c_char) -> c_int {
    match cur() {
        Some(c) => do_simple(c, "rmdir", Op::Rmdir, libc::AT_FDCWD, path, 0, 0, &|| real_unlinkat(libc::AT_FDCWD, path, libc::AT_REMOVEDIR)),
        None => real_unlinkat(libc::AT_FDCWD, path, libc::AT_REMOVEDIR),
    }
}
#[no_mangle]
pub unsafe extern "C" fn rename(old: *const c_char, new: *const c_char) -> c_int {
    match cur() {
        Some(c) => do_two(c, "rename", Op::Rename, libc::AT_FDCWD, old, libc::AT_FDCWD, new, &|| real_renameat2(libc::AT_FDCWD, old, libc::AT_FDCWD, new, 0)),
        None => real_renameat2(libc::AT_FDCWD, old, libc::AT_FDCWD, new, 0),
    }
}
#[no_mangle]
pub unsafe extern "C" fn renameat(od: c_int, old: *const c_char, nd: c_int, new: *const c_char) -> c_int {
    match cur() {
        Some(c) => do_two(c, "renameat", Op::Rename, od, old, nd, new, &|| real_renameat2(od, old, nd, new, 0)),
        None => real_renameat2(od, old, nd, new, 0),
    }
}
#[no_mangle]
pub unsafe extern "C" fn renameat2(od: c_int, old: *const c_char, nd: c_int, new: *const c_char, flags: c_uint) -> c_int {
    match cur() {
        Some(c) => do_two(c, "renameat2", Op::Rename, od, old, nd, new, &|| real_renameat2(od, old, nd, new, flags)),
        None => real_renameat2(od, old, nd, new, flags),
    }
}
#[no_mangle]
pub unsafe extern "C" fn link(old: *const c_char, new: *const c_char) -> c_int {
    let real = || libc::syscall(libc::SYS_linkat, libc::AT_FDCWD as c_long, old, libc::AT_FDCWD as c_long, new, 0 as c_long) as c_int;
    match cur() {
        Some(c) => do_two(c, "link", Op::Link, libc::AT_FDCWD, old, libc::AT_FDCWD, new, &real),
        None => real(),
    }
}
#[no_mangle]
pub unsafe extern "C" fn linkat(od: c_int, old: *const c_char, nd: c_int, new: *const c_char, flags: c_int) -> c_int {
    let real = || libc::syscall(libc::SYS_linkat, od as c_long, old, nd as c_long, new, flags as c_long) as c_int;
    match cur() {
        Some(c) => do_two(c, "linkat", Op::Link, od, old, nd, new, &real),
        None => real(),
    }
}
#[no_mangle]
pub unsafe extern "C" fn symlink(target: *const c_char, linkpath: *const c_char) -> c_int {
    let real = || libc::syscall(libc::SYS_symlinkat, target, libc::AT_FDCWD as c_long, linkpath) as c_int;
    match cur() {
        Some(c) => do_two(c, "symlink", Op::Symlink, libc::AT_FDCWD, target, libc::AT_FDCWD, linkpath, &real),
        None => real(),
    }
}
#[no_mangle]
pub unsafe extern "C" fn symlinkat(target: *const c_char, nd: c_int, linkpath: *const c_char) -> c_int {
    let real = || libc::syscall(libc::SYS_symlinkat, target, nd as c_long, linkpath) as c_int;
    match cur() {
        Some(c) => do_two(c, "symlinkat", Op::Symlink, libc::AT_FDCWD, target, nd, linkpath, &real),
        None => real(),
    }
}
#[no_mangle]
pub unsafe extern "C" fn truncate(path: *const c_char, len: off_t) -> c_int {
    let real = || libc::syscall(libc::SYS_truncate, path, len) as c_int;
    match cur() {
        Some(c) => do_simple(c, "truncate", Op::Truncate, libc::AT_FDCWD, path, 0, len as u64, &real),
        None => real(),
    }
}
#[no_mangle]
pub unsafe extern "C" fn truncate64(path: *const c_char, len: off_t) -> c_int {
    truncate(path, len)
}
#[no_mangle]
pub unsafe extern "C" fn ftruncate(fd: c_int, len: off_t) -> c_int {
    let real = || libc::syscall(libc::SYS_ftruncate, fd as c_long, len) as c_int;
    match cur() {
        Some(c) => do_fd(c, "ftruncate", Op::Truncate, fd, len as u64, &real),
        None => real(),
    }
}
#[no_mangle]
pub unsafe extern "C" fn ftruncate64(fd: c_int, len: off_t) -> c_int {
    ftruncate(fd, len)
}
#[no_mangle]
pub unsafe extern "C" fn chmod(path: *const c_char, mode: mode_t) -> c_int {
    let real = || libc::syscall(libc::SYS_fchmodat, libc::AT_FDCWD as c_long, path, mode as c_long) as c_int;
    match cur() {
        Some(c) => do_simple(c, "chmod", Op::Chmod, libc::AT_FDCWD, path, mode as i32, 0, &real),
        None => real(),
    }
}
#[no_mangle]
pub unsafe extern "C" fn fchmod(fd: c_int, mode: mode_t) -> c_int {
    let real = || libc::syscall(libc::SYS_fchmod, fd as c_long, mode as c_long) as c_int;
    match cur() {
        Some(c) => do_fd(c, "fchmod", Op::Chmod, fd, 0, &real),
        None => real(),
    }
}
#[no_mangle]
pub unsafe extern "C" fn fsync(fd: c_int) -> c_int {
    let real = || libc::syscall(libc::SYS_fsync, fd as c_long) as c_int;
    match cur() {
        Some(c) => do_fd(c, "fsync", Op::Fsync, fd, 0, &real),
        None => real(),
    }
}
#[no_mangle]
pub unsafe extern "C" fn fdatasync(fd: c_int) -> c_int {
    let real = || libc::syscall(libc::SYS_fdatasync, fd as c_long) as c_int;
    match cur() {
        Some(c) => do_fd(c, "fdatasync", Op::Fsync, fd, 0, &real),
        None => real(),
    }
}
#[no_mangle]
pub unsafe extern "C" fn futimens(fd: c_int, times: *const libc::timespec) -> c_int {
    let real = || libc::syscall(libc::SYS_utimensat, fd as c_long, std::ptr::null::<c_char>(), times, 0 as c_long) as c_int;
    match cur() {
        Some(c) => do_fd(c, "futimens", Op::Utimens, fd, 0, &real),
        None => real(),
    }
}
#[no_mangle]
pub unsafe extern "C" fn utimensat(dirfd: c_int, path: *const c_char, times: *const libc::timespec, flags: c_int) -> c_int {
    let real = || libc::syscall(libc::SYS_utimensat, dirfd as c_long, path, times, flags as c_long) as c_int;
    match cur() {
        Some(c) if !path.is_null() => do_simple(c, "utimensat", Op::Utimens, dirfd, path, flags, 0, &real),
        _ => real(),
    }
}
#[no_mangle]
pub unsafe extern "C" fn copy_file_range(
    fd_in: c_int,
    off_in: *mut off_t,
    fd_out: c_int,
    off_out: *mut off_t,
    len: size_t,
    flags: c_uint,
) -> ssize_t {
    let real = || libc::syscall(libc::SYS_copy_file_range, fd_in as c_long, off_in, fd_out as c_long, off_out, len, flags as c_long) as ssize_t;
    match cur() {
        Some(c) => {
            // make std fall back to read+write, which are fully simulated
            let _b = Busy::new(c);
            c.count("copy_file_range");
            set_errno(libc::ENOSYS);
            -1
        }
        None => real(),
    }
}
#[no_mangle]
pub unsafe extern "C" fn sendfile64(out_fd: c_int, in_fd: c_int, off: *mut off_t, count: size_t) -> ssize_t {
    match cur() {
        Some(c) => {
            let _b = Busy::new(c);
            c.count("sendfile");
            set_errno(libc::ENOSYS);
            -1
        }
        None => libc::syscall(libc::SYS_sendfile, out_fd as c_long, in_fd as c_long, off, count) as ssize_t,
    }
}
#[no_mangle]
pub unsafe extern "C" fn sendfile(out_fd: c_int, in_fd: c_int, off: *mut off_t, count: size_t) -> ssize_t {
    sendfile64(out_fd, in_fd, off, count)
}

// ----- entropy ---------------------------------------------------------------

#[no_mangle]
pub unsafe extern "C" fn getrandom(buf: *mut c_void, len: size_t, flags: c_uint) -> ssize_t {
    match cur() {
        Some(c) => {
            let _b = Busy::new(c);
            c.count("getrandom");
            let out = std::slice::from_raw_parts_mut(buf as *mut u8, len);
            let first = c.getrandom_calls == 0;
            c.getrandom_calls += 1;
            if first && len == 16 {
                out[..8].copy_from_slice(&c.spec.hash_keys[0].to_ne_bytes());
                out[8..].copy_from_slice(&c.spec.hash_keys[1].to_ne_bytes());
            } else {
                for b in out.iter_mut() {
                    *b = c.rng.next_u64() as u8;
                }
            }
            len as ssize_t
        }
        None => libc::syscall(libc::SYS_getrandom, buf, len, flags as c_long) as ssize_t,
    }
}

// ----- clocks ----------------------------------------------------------------

#[no_mangle]
pub unsafe extern "C" fn clock_gettime(clk: libc::clockid_t, ts: *mut libc::timespec) -> c_int {
    match cur() {
        Some(c) => {
            let _b = Busy::new(c);
            c.count("clock_gettime");
            let step = c.spec.clock.step_ns as i128;
            let v = match clk {
                libc::CLOCK_REALTIME | libc::CLOCK_REALTIME_COARSE => {
                    let idx = c.real_reads;
                    c.real_reads += 1;
                    let mut jump: i128 = 0;
                    for (i, d) in &c.spec.clock.jumps {
                        if *i == idx {
                            jump += *d as i128;
                        }
                    }
                    c.real_ns += jump;
                    // simulated time covered = what the clock ticked; jumps are skew, not time
                    c.sim_ns_advanced += step.abs();
                    if jump != 0 {
                        *c.counts.entry("clock_jump").or_insert(0) += 1;
                    }
                    let v = c.real_ns;
                    c.real_ns += step;
                    v
                }
                libc::CLOCK_MONOTONIC | libc::CLOCK_MONOTONIC_RAW | libc::CLOCK_MONOTONIC_COARSE | libc::CLOCK_BOOTTIME => {
                    let v = c.mono_ns;
                    c.mono_ns += step.abs().max(1);
                    v
                }
                _ => return libc::syscall(libc::SYS_clock_gettime, clk as c_long, ts) as c_int,
            };
            let v = v.max(0);
            (*ts).tv_sec = (v / 1_000_000_000) as libc::time_t;
            (*ts).tv_nsec = (v % 1_000_000_000) as c_long;
            0
        }
        None => libc::syscall(libc::SYS_clock_gettime, clk as c_long, ts) as c_int,
    }
}
#[no_mangle]
pub unsafe extern "C" fn gettimeofday(tv: *mut libc::timeval, tz: *mut c_void) -> c_int {
    if cur().is_some() && !tv.is_null() {
        let mut ts: libc::timespec = std::mem::zeroed();
        clock_gettime(libc::CLOCK_REALTIME, &mut ts);
        (*tv).tv_sec = ts.tv_sec;
        (*tv).tv_usec = ts.tv_nsec / 1000;
        return 0;
    }
    libc::syscall(libc::SYS_gettimeofday, tv, tz) as c_int
}
#[no_mangle]
pub unsafe extern "C" fn time(t: *mut libc::time_t) -> libc::time_t {
    let mut ts: libc::timespec = std::mem::zeroed();
    clock_gettime(libc::CLOCK_REALTIME, &mut ts);
    if !t.is_null() {
        *t = ts.tv_sec;
    }
    ts.tv_sec
}

// ----- process identity --------------------------------------------------------

#[no_mangle]
pub unsafe extern "C" fn getpid() -> libc::pid_t {
    match cur() {
        Some(c) => {
            let _b = Busy::new(c);
            c.count("getpid");
            // a simulated process has a simulated pid: a function of its seed
            (1000 + (c.spec.hash_keys[0] % 30_000)) as libc::pid_t
        }
        None => libc::syscall(libc::SYS_getpid) as libc::pid_t,
    }
}

// ----- terminal --------------------------------------------------------------

#[no_mangle]
pub unsafe extern "C" fn isatty(fd: c_int) -> c_int {
    if cur().is_some() {
        set_errno(libc::ENOTTY);
        return 0;
    }
    let mut t: libc::termios = std::mem::zeroed();
    if libc::tcgetattr(fd, &mut t) == 0 { 1 } else { 0 }
}

// ----- directory enumeration ---------------------------------------------------

/// Listing a directory can fail like any other read (EACCES on a directory that lost its
/// permissions, EIO): the fault point is the `opendir` call.
#[no_mangle]
pub unsafe extern "C" fn opendir(name: *const c_char) -> *mut libc::DIR {
    match cur() {
        Some(c) => {
            let _b = Busy::new(c);
            c.count("opendir");
            let rp = resolve(libc::AT_FDCWD, name, true);
            let special = rp.starts_with("/proc/") || rp.starts_with("/sys/") || (rp.starts_with("/dev/") && !rp.starts_with("/dev/shm/"));
            if special || c.frozen {
                return real_opendir(name);
            }
            c.cur_existed = true;
            let (m, r, fault) = c.fault_for(Op::OpenDir, &rp);
            match fault {
                Some(FaultKind::Err(e)) => {
                    c.push(Op::OpenDir, m, r, rp, String::new(), 0, 0, -1, e, Some(&FaultKind::Err(e)), true, false);
                    set_errno(e);
                    std::ptr::null_mut()
                }
                Some(FaultKind::CrashBefore) | Some(FaultKind::CrashAfter) => {
                    c.frozen = true;
                    c.push(Op::OpenDir, m, r, rp, String::new(), 0, 0, 0, 0, Some(&FaultKind::CrashBefore), true, true);
                    real_opendir(name)
                }
                _ => {
                    let d = real_opendir(name);
                    let e = get_errno();
                    c.push(Op::OpenDir, m, r, rp, String::new(), 0, 0, if d.is_null() { -1 } else { 0 }, if d.is_null() { e } else { 0 }, None, true, false);
                    set_errno(e);
                    d
                }
            }
        }
        None => real_opendir(name),
    }
}

#[no_mangle]
pub unsafe extern "C" fn readdir64(dirp: *mut libc::DIR) -> *mut libc::dirent64 {
    match cur() {
        Some(c) => {
            let _b = Busy::new(c);
            c.count("readdir64");
            let key = dirp as usize;
            if !c.dirs.contains_key(&key) {
                let mut entries: Vec<Vec<u64>> = Vec::new();
                loop {
                    set_errno(0);
                    let e = real_readdir64(dirp);
                    if e.is_null() {
                        break;
                    }
                    let reclen = (*e).d_reclen as usize;
                    let words = reclen.div_ceil(8).max(4);
                    let mut v = vec![0u64; words + 1];
                    std::ptr::copy_nonoverlapping(e as *const u8, v.as_mut_ptr() as *mut u8, reclen);
                    entries.push(v);
                }
                // canonical base order (by name), then a seeded permutation: the
                // result does not depend on the kernel's order at all
                entries.sort_by(|a, b| {
                    let na = CStr::from_ptr((*(a.as_ptr() as *const libc::dirent64)).d_name.as_ptr());
                    let nb = CStr::from_ptr((*(b.as_ptr() as *const libc::dirent64)).d_name.as_ptr());
                    na.cmp(nb)
                });
                if c.spec.readdir_seed != 0 {
                    let n = entries.len();
                    for i in (1..n).rev() {
                        let j = c.dir_rng.below((i + 1) as u64) as usize;
                        entries.swap(i, j);
                    }
                }
                c.dirs.insert(key, DirState { entries, pos: 0 });
            }
            let st = c.dirs.get_mut(&key).unwrap();
            if st.pos >= st.entries.len() {
                set_errno(0);
                return std::ptr::null_mut();
            }
            let p = st.entries[st.pos].as_mut_ptr() as *mut libc::dirent64;
            st.pos += 1;
            p
        }
        None => real_readdir64(dirp),
    }
}
#[no_mangle]
pub unsafe extern "C" fn readdir(dirp: *mut libc::DIR) -> *mut libc::dirent {
    readdir64(dirp) as *mut libc::dirent
}
#[no_mangle]
pub unsafe extern "C" fn closedir(dirp: *mut libc::DIR) -> c_int {
    if let Some(c) = cur() {
        let _b = Busy::new(c);
        c.dirs.remove(&(dirp as usize));
    }
    real_closedir(dirp)
}
